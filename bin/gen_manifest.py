#!/usr/bin/env python3
"""Generates /verif/MANIFEST.json from the table below (kept in one place so it stays valid)."""
import json, os, sys
ROOT = os.path.dirname(os.path.dirname(os.path.abspath(__file__)))

# id -> (engine, technique, level text, level note, design ref)
CHECKS = {
 "C04": ("inputmc", "exhaustive bounded input enumeration of the real VerifyMerkelProof against a reference definition",
         "Every (tree size <= 9 [17 thorough], leaf, claimed position incl. out-of-range ones, path/root/leaf variant) is executed on the real function and compared with the definition of inclusion; exhaustive over the stated alphabet.",
         "SHA-256 trusted; leaves pairwise distinct; tree sizes beyond the bound not covered.", "DESIGN.md section 4 C04"),
}
PENDING = {}

def main():
    props = [json.loads(l)["id"] for l in open(os.path.join(ROOT, "properties.jsonl"))]
    checks = []
    for pid in props:
        if pid not in CHECKS:
            continue
        eng, tech, text, note, ref = CHECKS[pid]
        checks.append({
            "property_id": pid,
            "quick_cmd": f"bin/check {pid} quick",
            "thorough_cmd": f"bin/check {pid} thorough",
            "evidence_file": f"/verif/evidence/{pid}.json",
            "replay_cmd_template": "bin/replay {path}",
            "engine": eng,
            "level_claimed": {"category": "model_checking", "text": text, "design_ref": ref},
            "level_note": note,
            "technique": tech,
        })
    na = [{"property_id": p, "reason": PENDING.get(p, "check not built yet in this round (planned in DESIGN.md section 4); not claimed until it exists")}
          for p in props if p not in CHECKS]
    man = {
        "version": 1,
        "setup_cmd": "bin/setup",
        "hooks": {
            "guard": "verif",
            "enable": "no source hooks in /repo are needed so far: checks link the unmodified packages of /repo (go.mod replace => /repo) into the harness; dependency-side instrumentation is applied with go build -overlay",
            "baseline_off_cmd": "cd /repo && GOFLAGS=-mod=mod GOPROXY=off GOSUMDB=off GOTOOLCHAIN=local go test -json -vet=off -count=1 -timeout 25m ./...",
            "source_commits": [],
            "add_only": True,
        },
        "engines": [
            {"name": "inputmc", "path": "harness/checks", "serves_properties": [p for p in CHECKS if CHECKS[p][0] == "inputmc"], "kind_free_text": "bounded exhaustive input enumeration of real functions/handlers against an independent reference"},
            {"name": "keepermc", "path": "harness/checks", "serves_properties": [p for p in CHECKS if CHECKS[p][0] == "keepermc"], "kind_free_text": "explicit-state DFS over real keeper transition functions on copy-on-write branches of a real App, with state de-duplication"},
            {"name": "chainmc", "path": "harness/checks", "serves_properties": [p for p in CHECKS if CHECKS[p][0] == "chainmc"], "kind_free_text": "ABCI-level depth-bounded exploration of the real application (PrepareProposal/ProcessProposal/FinalizeBlock/Commit) with a scripted fake execution layer and fault injection"},
            {"name": "schedmc", "path": "harness/checks", "serves_properties": [p for p in CHECKS if CHECKS[p][0] == "schedmc"], "kind_free_text": "controlled scheduler (preemption-bounded DFS) over the errgroup goroutines of prepare/process proposal"},
        ],
        "checks": checks,
        "not_applicable": na,
        "notes": "All checks are exhaustive bounded explorations of the real implementation compiled from /repo's working tree; see DESIGN.md.",
    }
    json.dump(man, open(os.path.join(ROOT, "MANIFEST.json"), "w"), indent=1)
    print("checks:", [c["property_id"] for c in checks], "not_applicable:", len(na))

if __name__ == "__main__":
    main()
