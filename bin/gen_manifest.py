#!/usr/bin/env python3
"""Generates /verif/MANIFEST.json from the table below (kept in one place so it stays valid)."""
import json, os, sys
ROOT = os.path.dirname(os.path.dirname(os.path.abspath(__file__)))

# id -> (engine, technique, level text, level note, design ref)
CHECKS = {
 "C04": ("inputmc", "exhaustive bounded input enumeration of the real VerifyMerkelProof against a reference definition, plus an acceptance-level pass: genuine and position-aliased deposits of blocks with 1..20000 transactions through the real MsgNewDeposits handler",
         "Every (tree size <= 9 [17 thorough], leaf, claimed position incl. out-of-range ones, path/root/leaf variant) is executed on the real function and compared with the definition of inclusion; exhaustive over the stated alphabet.",
         "SHA-256 trusted; leaves pairwise distinct; tree sizes beyond the bound not covered.", "DESIGN.md section 4 C04"),
}

KB_NOTE = "Explores the real keeper functions on CacheContext branches of a real App; the block step (BeginBlocker / execution-block requests as one atomic tx / EndBlocker) mirrors BaseApp.FinalizeBlock; CometSim feeds votes/evidence from a real CometBFT ValidatorSet with the H+2 lag. Values outside the amount alphabet and histories longer than the depth bound are not covered."
CHECKS.update({
 "C11": ("keepermc", "explicit-state DFS over the real locking keeper with canonical-state de-duplication; per-token conservation step identity",
         "Every locking history up to the depth bound over the stated menu is executed on the real keeper and checked against the per-token conservation identity, unlock <= request and <= holding, non-negativity.", KB_NOTE, "DESIGN.md section 4 C11"),
 "C12": ("keepermc", "explicit-state DFS over the real locking keeper; reward conservation / emission / proportional-share oracles on every transition",
         "Every reward history up to the depth bound for power vectors (4,1,1),(1,2),(1) is executed on the real keeper; conservation, emission schedule, share proportionality, carry-over, claim semantics and non-negativity are checked on every transition.", KB_NOTE, "DESIGN.md section 4 C12"),
 "C13": ("keepermc", "explicit-state DFS over the real locking keeper; CometBFT's own ValidatorSet.UpdateWithChangeSet as acceptance oracle plus top-K invariants in every state",
         "Every history up to the depth bound is executed; each ValidatorUpdates answer is applied to a real CometBFT validator set, and the recorded set is compared with the accumulated updates and the top-K rule in every reached state.", KB_NOTE, "DESIGN.md section 4 C13"),
 "C14": ("keepermc", "explicit-state DFS over vote patterns, evidence timings and follow-up requests against a reference signing-window/tombstone automaton",
         "Every vote/evidence/request history up to the depth bound is executed on the real keeper and compared step by step with a reference automaton written from the property statement (exact slash amounts, jail, tombstone permanence).", KB_NOTE, "DESIGN.md section 4 C14"),
 "C15": ("keepermc", "explicit-state DFS over lock/unlock/time histories against a reference release-time model",
         "Every unlock history up to the depth bound (incl. bursts over the delivery cap and equal timestamps) is executed and compared with reference release times, maturity order, FIFO hand-over and id-multiset conservation.", KB_NOTE, "DESIGN.md section 4 C15"),
})
CHECKS.update({
 "C01": ("inputmc", "exhaustive bounded enumeration of (group size, bitmap, signer subset, action kind, signing-context perturbation) through the real message handlers against a reference quorum predicate",
         "For every group size up to the bound, every subset of a position alphabet (incl. positions beyond the voter list and in several encodings) x every subset of members that really signed is delivered to the real MsgNewBlockHashes handler of a real App; other voted kinds by class representatives; all single-field context perturbations; Threshold() on its whole domain.",
         "BLS unforgeability trusted; handlers are invoked through the app's MsgServiceRouter on throw-away branches (transaction-level rollback is the SDK's); process/replace-withdrawal quorum paths are covered in C05.", "DESIGN.md section 4 C01"),
 "C16": ("keepermc", "explicit-state DFS over the real relayer keeper (requests, NewVoter/AcceptProposer/vote handlers, EndBlocker) with group invariants and reference election/registration predicates",
         "Every relayer history up to the depth bound for group sizes 1..3 is executed on the real keeper and message handlers; invariants hold in every reached state, NewVoter verdicts agree with a reference (8 forged/replayed variants), elections happen exactly when the reference predicate says.", KB_NOTE, "DESIGN.md section 4 C16"),
})
CHECKS.update({
 "C03": ("inputmc", "exhaustive bounded enumeration of deposit messages (genuine cores x single and double deviations) through the real MsgNewDeposits handler against a reference Bitcoin world, plus depth-3 batch histories",
         "Full product of genuine deposit cores and every single / pair of 35 deviation kinds is delivered to the real handler on branches of a real App; every accepted batch is re-evaluated against the statement's conditions with independent merkle/script/tax code and ground-truth transaction positions; batch histories check at-most-once crediting.",
         "Only-if direction (over-rejection is not a violation); voted hashes injected into the BlockHashes collection; hash functions and secp256k1 trusted; handful of keys/addresses.", "DESIGN.md section 4 C03"),
 "C17": ("inputmc", "exhaustive cross product of (key, EVM address, network, version, magic) through the real Query/DepositAddress handler, builders and verifiers; hand-encoded withdrawal addresses and all single-character substitutions through the real decoder and ProcessBridgeRequest",
         "Every handed-out address of the alphabet is checked against the verifier for the full cross product of (key', address') and against the protocol's reference script; every standard address kind of four networks (encoded by hand) and ~15k mutated strings are decoded for every network.",
         "btcd encoders trusted as reference decoder for mutated strings; 11 keys, 6 addresses.", "DESIGN.md section 4 C17"),
 "C20": ("keepermc", "explicit-state BFS to fixpoint over bridge parameter states under the real ProcessBridgeRequest, with deposits verified in every reachable state; request lists also inside execution blocks through the real PrepareProposal/ProcessProposal/FinalizeBlock pipeline (differential against the direct keeper call)",
         "All parameter states reachable from three safe corners under requests over a 12-value 64-bit alphabet are enumerated to fixpoint (no depth bound); the bounds invariant and deposit tax/amount/dust conditions are checked in every state.",
         "Parameter values outside the alphabet are not covered; states are materialised by writing Params on a branch.", "DESIGN.md section 4 C20"),
})
CHECKS.update({
 "C05": ("keepermc", "explicit-state DFS over interleavings of user requests and relayer actions on the real bridge keeper/handlers against a reference life-cycle model, with all ill-formed action variants tried in every distinct state",
         "Every interleaving up to the depth bound over ids 1..3 is executed on the real handlers with genuine 2-member quorum votes; each step is compared with a reference life-cycle model (status, terms, paid amount, notices at most once, never both); in every distinct state 25 kinds of ill-formed process/replace/finalize variants must fail and leave the store unchanged.",
         KB_NOTE + " Withdrawal ids are unique (bridge contract); finalisation blocks are injected into BlockHashes.", "DESIGN.md section 4 C05"),
})

KA_NOTE = "Runs the real application (app.New on an in-memory DB, production baseapp options, goat's real engine client over a unix socket to a scripted fake execution layer). Every tree edge executes on a fork = deep copy of the DB under a new App (the restart path). Single validator proposes every block. Histories beyond the depth bound and menus other than the stated one are not covered."
CHECKS.update({
 "C06": ("chainmc", "depth-bounded tree search over block histories of the real ABCI application against a reference ledger of owed items; exhaustive system-transaction mutations at every node",
         "Every history up to the depth bound over the queue-filling menu (incl. abandoned proposal rounds, failing execution-block messages, restarts, gap/rewrite hash batches) is executed through PrepareProposal/ProcessProposal/FinalizeBlock/Commit; the system transactions of every finalised payload are matched against a reference FIFO ledger (caps, consecutive nonces, exactly-once), traces are drained, and 9 payload mutations per node must be rejected.",
         KA_NOTE, "DESIGN.md section 4 C06"),
 "C09": ("chainmc", "depth-bounded tree search with a head monitor on every finalised block plus exhaustive single-fault injection over every engine call of a block",
         "Every finalised block of every history up to the depth bound is checked by the head monitor; at every node up to the fault depth every placement of one engine fault (7 kinds, incl. a transport-level outage of the engine) on each of the 5 engine calls is executed, aborted blocks are retried (after a real restart when FinalizeBlock failed) and compared with a fault-free replica.",
         KA_NOTE + " Pairs of faults are not explored.", "DESIGN.md section 4 C09"),
})
CHECKS.update({
 "C02": ("chainmc", "depth-bounded tree search over block histories of the real ABCI application with a vote pool (every vote produced earlier is re-presented in several ways) against a reference sequence counter / randao chain and a differential empty-block oracle",
         "Every history up to the depth bound over fresh voted messages (block hashes, new key, process withdrawal, consolidation), failing-after-verification messages, non-voted messages, elections, membership requests, chained and same-sequence pairs, and replays (unchanged, context rewritten, other payload, other action) is executed through the real block pipeline; the sequence grows by exactly the number of successful voted transactions, the randao chains over their signatures, replays are never accepted, and failed transactions leave relayer/bridge stores equal to the same block without them.",
         KA_NOTE, "DESIGN.md section 4 C02"),
 "C08": ("chainmc", "depth-bounded tree search over block histories; at every state: real PrepareProposal over 8 mempool classes checked by a second replica, execution blocks up to the consensus block size and request bursts up to the engine's gas limit, non-canonically encoded proposals followed by honest ones, a chain whose validator account is the relayer proposer, and 37 single mutations of a well-formed proposal through ProcessProposal/FinalizeBlock",
         "At every state of the search the real PrepareProposal output (mempool classes incl. 20 valid txs, stale and foreign-signer txs) must be accepted by an independent replica, stay within 16 txs and execute its block message successfully; every single mutation of a well-formed proposal from a 26-entry menu must be rejected and must not move the head when finalised anyway.",
         KA_NOTE + " Two validators; clocks of validators are not behind the proposer's.", "DESIGN.md section 4 C08"),
})
CHECKS.update({
 "C10": ("inputmc", "exhaustive product of (registered message type, signer class, memo, timeout height, signature class, execution mode, relayer state: before/after an election, after the proposer's removal, validator account = relayer proposer) plus compositions, delivered to the real application and compared with an admission predicate; differential state check for foreign messages",
         "Every sdk.Msg implementation registered in the interface registry (discovered at run time) is delivered in every mode (CheckTx, ReCheck, PrepareProposal via mempool, ProcessProposal, FinalizeBlock) for every signer/memo/timeout/signature class before and after a relayer election; admission must equal the predicate written from the statement and foreign messages must leave all stores equal to the same block without them.",
         KA_NOTE + " CheckTx is exercised on an App that has committed a block.", "DESIGN.md section 4 C10"),
 "C18": ("chainmc", "depth-bounded tree search over block histories; in every visited state the real export is imported into a fresh App and compared (re-export, store dumps, invariants, first block)",
         "Every state reached by histories up to the depth bound over a 20-entry menu (validators in all statuses incl. zero-power, pending/boarding voters, in-flight withdrawals, queues, parameter corners) is exported with ExportAppStateAndValidators, imported with InitChain on a fresh App and compared: validators, per-module re-export, full store dumps (boarding queue as multiset), invariants, and the imported chain must produce a block.",
         KA_NOTE, "DESIGN.md section 4 C18"),
})
CHECKS.update({
 "C19": ("inputmc", "exhaustive single wire-level mutations of every message type, raw transaction and execution-block message, each correctly re-signed and delivered through CheckTx / ProcessProposal / FinalizeBlock of the real application in crash-contained worker processes; differential state check for failed transactions",
         "For two reachable states every single-field wire mutation (two levels deep) of a well-formed instance of every relayer/bridge message, all vote-bitmap lengths 0..33, raw-transaction truncations and mutations, mutations of MsgNewEthBlock and an execution-layer request grammar are delivered to the real application; a dying worker process (= node crash, incl. panics in errgroup goroutines), an escaping panic or a FinalizeBlock error is a violation, and failed transactions must leave all module stores equal to the same block without them.",
         KA_NOTE + " Proposals rejected by ProcessProposal are not forced into FinalizeBlock.", "DESIGN.md section 4 C19"),
})
CHECKS.update({
 "C07": ("chainmc", "replica comparison (second proposal round, restart before/after Commit, shifted wall clocks incl. a clock behind everything on a node that only finalises, twin histories on one instance vs an instance per block, worker processes with other node-local configuration: telemetry on / other operator settings) plus exhaustive enumeration of Go map-iteration starts through a runtime hook (instrumented build), on scenario blocks incl. adversarial request batches",
         "For every scenario block the same transactions are executed on differently treated replicas of the real application and must agree on app hash, tx results incl. gas, validator-update set, engine calls, store dump and next-block hash; with a go build -overlay of runtime/map.go every map iteration of the FinalizeBlock goroutine is enumerated: all combinations of starts at range sites in goat packages, every single deviation at sites in dependencies.",
         KA_NOTE + " Overlay patches runtime/map.go and time/time.go of the Go toolchain in the checking build only; torn writes inside Commit are out of scope.", "DESIGN.md section 4 C07"),
})
t=list(CHECKS["C08"]); t[0]="chainmc"; t[1]="tree search with real PrepareProposal checked by a second replica (mempool classes, execution-block sizes, request bursts, shared proposer account), 37 proposal mutations and non-canonical encodings; preemption-bounded exhaustive schedule exploration (controlled scheduler over the errgroup goroutines at store-operation granularity, instrumented build); separate free-running -race pass"
t[2]=t[2]+" Every schedule with at most 2 (thorough 3) preemptions of the two goroutines of PrepareProposalHandler and verifyEthBlockProposal is executed for 7 state/mempool/proposal classes with the same oracles; data races are reported by the Go race detector on a free-running pass over the same harness bodies (scheduler hand-offs would blind it)."
CHECKS["C08"]=tuple(t)
PENDING = {}

def main():
    props = [json.loads(l)["id"] for l in open(os.path.join(ROOT, "properties.jsonl"))]
    checks = []
    for pid in props:
        if pid not in CHECKS:
            continue
        eng, tech, text, note, ref = CHECKS[pid]
        checks.append({
            "property_id": pid,
            "quick_cmd": f"bin/check {pid} quick",
            "thorough_cmd": f"bin/check {pid} thorough",
            "evidence_file": f"/verif/evidence/{pid}.json",
            "replay_cmd_template": "bin/replay {path}",
            "engine": eng,
            "level_claimed": {"category": "model_checking", "text": text, "design_ref": ref},
            "level_note": note,
            "technique": tech,
        })
    na = [{"property_id": p, "reason": PENDING.get(p, "check not built yet in this round (planned in DESIGN.md section 4); not claimed until it exists")}
          for p in props if p not in CHECKS]
    man = {
        "version": 1,
        "setup_cmd": "bin/setup",
        "hooks": {
            "guard": "verif",
            "enable": "no source hooks in /repo: checks link the packages of /repo unmodified (go.mod replace => /repo); instrumentation lives in dependencies only and is applied with go build -tags verifovl -overlay overlay/overlay.json (bin/build-ovl), patching copies of runtime/map.go, time/time.go, x/sync/errgroup and cosmos-sdk runtime/store.go",
            "baseline_off_cmd": "cd /repo && GOFLAGS=-mod=mod GOPROXY=off GOSUMDB=off GOTOOLCHAIN=local go test -json -vet=off -count=1 -timeout 25m ./...",
            "source_commits": [],
            "add_only": True,
        },
        "engines": [
            {"name": "inputmc", "path": "harness/checks", "serves_properties": [p for p in CHECKS if CHECKS[p][0] == "inputmc"], "kind_free_text": "bounded exhaustive input enumeration of real functions/handlers against an independent reference"},
            {"name": "keepermc", "path": "harness/checks", "serves_properties": [p for p in CHECKS if CHECKS[p][0] == "keepermc"], "kind_free_text": "explicit-state DFS over real keeper transition functions on copy-on-write branches of a real App, with state de-duplication"},
            {"name": "chainmc", "path": "harness/checks", "serves_properties": [p for p in CHECKS if CHECKS[p][0] == "chainmc"], "kind_free_text": "ABCI-level depth-bounded exploration of the real application (PrepareProposal/ProcessProposal/FinalizeBlock/Commit) with a scripted fake execution layer and fault injection"},
            {"name": "schedmc", "path": "harness/sched", "serves_properties": [p for p in CHECKS if CHECKS[p][0] == "schedmc"], "kind_free_text": "controlled scheduler (preemption-bounded DFS) over the errgroup goroutines of prepare/process proposal"},
        ],
        "checks": checks,
        "not_applicable": na,
        "notes": "All checks are exhaustive bounded explorations of the real implementation compiled from /repo's working tree; see DESIGN.md. Known findings (genuine defects recorded rather than repaired) and repaired defects are listed in /verif/known_findings.json ('known' / 'fixed'); a check prints one KNOWN-FINDING line per listed class it meets and exits 0, any other violation exits 1.",
    }
    json.dump(man, open(os.path.join(ROOT, "MANIFEST.json"), "w"), indent=1)
    print("checks:", [c["property_id"] for c in checks], "not_applicable:", len(na))

if __name__ == "__main__":
    main()
