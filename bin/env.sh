export GOFLAGS=-mod=mod GOPROXY=off GOSUMDB=off GOTOOLCHAIN=local
export GOCACHE="${GOCACHE:-$HOME/.cache/go-build}"
