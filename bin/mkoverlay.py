#!/usr/bin/env python3
"""Generates /verif/overlay/{*.go,overlay.json}: patched copies of two GOROOT files and two
dependency files, used only by the instrumented build (bin/verifmc-ovl). /repo is untouched."""
import json, os, subprocess, sys
ROOT = os.path.dirname(os.path.dirname(os.path.abspath(__file__)))
OV = os.path.join(ROOT, "overlay")
env = dict(os.environ, GOFLAGS="-mod=mod", GOPROXY="off", GOSUMDB="off", GOTOOLCHAIN="local")
goroot = subprocess.check_output(["go", "env", "GOROOT"], env=env).decode().strip()
modcache = subprocess.check_output(["go", "env", "GOMODCACHE"], env=env).decode().strip()

def patch(src, dst, edits):
    s = open(src).read()
    for old, new in edits:
        if old not in s:
            sys.exit(f"mkoverlay: pattern not found in {src}: {old[:60]!r}")
        s = s.replace(old, new, 1)
    open(dst, "w").write(s)

repl = {}
# 1. runtime/map.go: the random start of a map iteration is taken from a hook for one goroutine
src = os.path.join(goroot, "src/runtime/map.go")
dst = os.path.join(OV, "runtime_map.go")
patch(src, dst, [
 ("	r := uintptr(rand())\n	it.startBucket = r & bucketMask(h.B)",
  "	r := uintptr(rand())\n	if verifMapIterHook != nil && getg().goid == verifMapIterGoid {\n		r = uintptr(verifMapIterHook(getcallerpc(), h.count, h.B))\n	}\n	it.startBucket = r & bucketMask(h.B)"),
 ("func mapiterinit(t *maptype, h *hmap, it *hiter) {",
  "var verifMapIterHook func(pc uintptr, count int, B uint8) uint64\nvar verifMapIterGoid uint64\n\n//go:linkname verifSetMapIterHook\nfunc verifSetMapIterHook(f func(pc uintptr, count int, B uint8) uint64) {\n	verifMapIterHook = f\n	verifMapIterGoid = getg().goid\n}\n\nfunc mapiterinit(t *maptype, h *hmap, it *hiter) {"),
])
repl[src] = dst
# 2. time/time.go: constant wall-clock offset
src = os.path.join(goroot, "src/time/time.go")
dst = os.path.join(OV, "time_time.go")
patch(src, dst, [
 ("func Now() Time {\n	sec, nsec, mono := now()\n",
  "// VerifNowOffset shifts the wall clock reading (seconds); monotonic readings are untouched.\nvar VerifNowOffset int64\n\nfunc Now() Time {\n	sec, nsec, mono := now()\n	sec += VerifNowOffset\n"),
])
repl[src] = dst
# 3. golang.org/x/sync/errgroup: scheduler-aware shim
src = os.path.join(modcache, "golang.org/x/sync@v0.9.0/errgroup/errgroup.go")
dst = os.path.join(OV, "errgroup.go")
patch(src, dst, [
 ("func (g *Group) Wait() error {\n",
  "// VerifSpawn / VerifWait are set by the controlled scheduler of the checking harness.\nvar VerifSpawn func(run func())\nvar VerifWait func()\n\nfunc (g *Group) Wait() error {\n	if VerifWait != nil {\n		VerifWait()\n	}\n"),
 ("	g.wg.Add(1)\n	go func() {\n		defer g.done()\n\n		if err := f(); err != nil {\n			g.errOnce.Do(func() {\n				g.err = err\n				if g.cancel != nil {\n					g.cancel(g.err)\n				}\n			})\n		}\n	}()\n}",
  "	g.wg.Add(1)\n	run := func() {\n		defer g.done()\n\n		if err := f(); err != nil {\n			g.errOnce.Do(func() {\n				g.err = err\n				if g.cancel != nil {\n					g.cancel(g.err)\n				}\n			})\n		}\n	}\n	if VerifSpawn != nil {\n		VerifSpawn(run)\n		return\n	}\n	go run()\n}"),
])
repl[src] = dst
# 4. cosmos-sdk runtime/store.go: scheduling point + access log at every module-store operation
src = os.path.join(modcache, "github.com/cosmos/cosmos-sdk@v0.50.10/runtime/store.go")
dst = os.path.join(OV, "sdk_runtime_store.go")
s = open(src).read()
edits = [("type coreKVStore struct {", "// VerifKVHook is called before every module-store operation when set.\nvar VerifKVHook func(op string, key []byte)\n\ntype coreKVStore struct {")]
for op, sig in [("Get", "func (store coreKVStore) Get(key []byte) ([]byte, error) {"), ("Has", "func (store coreKVStore) Has(key []byte) (bool, error) {"),
                ("Set", "func (store coreKVStore) Set(key, value []byte) error {"), ("Delete", "func (store coreKVStore) Delete(key []byte) error {"),
                ("Iterator", "func (store coreKVStore) Iterator(start, end []byte) (store.Iterator, error) {"),
                ("ReverseIterator", "func (store coreKVStore) ReverseIterator(start, end []byte) (store.Iterator, error) {")]:
    k = "key" if op in ("Get", "Has", "Set", "Delete") else "start"
    edits.append((sig, sig + f"\n	if VerifKVHook != nil {{\n		VerifKVHook(\"{op}\", {k})\n	}}"))
patch(src, dst, edits)
repl[src] = dst
json.dump({"Replace": repl}, open(os.path.join(OV, "overlay.json"), "w"), indent=1)
print("overlay:", len(repl), "files")
