// Package mc holds what every check shares: evidence accounting, violation artefacts,
// known-findings matching and small exploration helpers.
package mc

import (
	"crypto/sha256"
	"encoding/json"
	"fmt"
	"os"
	"path/filepath"
	"regexp"
	"runtime/debug"
	"sort"
	"strconv"
	"strings"
	"sync"
	"sync/atomic"
	"time"
)

// Root is the /verif directory.
func Root() string {
	if r := os.Getenv("VERIF_ROOT"); r != "" {
		return r
	}
	return "/verif"
}

// Violation is one failing case.
type Violation struct {
	Class  string `json:"class"`  // canonical identifier of the failing input / call site / history class
	Msg    string `json:"msg"`    // what was expected vs observed
	Detail any    `json:"detail"` // replayable description of the case
}

type knownFile struct {
	Known []struct {
		Property string `json:"property"`
		ID       string `json:"id"`
		What     string `json:"what"`
	} `json:"known"`
	Fixed []struct {
		Property string `json:"property"`
		Commit   string `json:"commit"`
		What     string `json:"what"`
	} `json:"fixed"`
}

// Run accumulates the evidence of one check execution.
type Run struct {
	ID    string
	Tier  string
	Seed  int64
	Start time.Time

	States      atomic.Int64
	Transitions atomic.Int64
	Validated   atomic.Int64 // executions / traces run on the real implementation

	mu          sync.Mutex
	samples     []any
	maxSamples  int
	outcomes    map[string]int64
	reasons     map[string]map[string]int
	violations  []Violation
	vioSeen     map[string]bool
	knownHit    map[string]string
	Exhaustive  bool
	Caps        []string
	Bounds      map[string]any
	Assumptions []string
	Extra       map[string]any
	Rule        string
	Deadline    time.Time
	known       map[string]string
	unstable    int
	unstableBy  map[string]int
	probe       bool
	// Recheck, when set, re-executes a violation from its description (on a fresh instance,
	// reporting into a Probe run) and says whether the same class came out again. It is used
	// for violations reported without their own recheck function.
	Recheck func(v Violation) bool
}

// Probe returns a scratch run with the same identity: violations reported into it are only
// collected (no recheck, no known-finding matching, no budget).
func (r *Run) Probe() *Run {
	return &Run{ID: r.ID, Tier: r.Tier, Seed: r.Seed, Start: time.Now(), maxSamples: 0, probe: true,
		outcomes: map[string]int64{}, vioSeen: map[string]bool{}, knownHit: map[string]string{},
		Exhaustive: true, Bounds: map[string]any{}, Extra: map[string]any{}, known: map[string]string{}}
}

func (r *Run) IsProbe() bool { return r.probe }

// Has reports whether a violation of this class was recorded.
func (r *Run) Has(class string) bool {
	r.mu.Lock()
	defer r.mu.Unlock()
	for _, v := range r.violations {
		if v.Class == class {
			return true
		}
	}
	return false
}

func NewRun(id, tier string) *Run {
	seed, _ := strconv.ParseInt(os.Getenv("VERIF_SEED"), 10, 64)
	r := &Run{ID: id, Tier: tier, Seed: seed, Start: time.Now(), maxSamples: 8,
		outcomes: map[string]int64{}, vioSeen: map[string]bool{}, knownHit: map[string]string{},
		Exhaustive: true, Bounds: map[string]any{}, Extra: map[string]any{}, known: map[string]string{}}
	if bz, err := os.ReadFile(filepath.Join(Root(), "known_findings.json")); err == nil {
		var kf knownFile
		if err := json.Unmarshal(bz, &kf); err == nil {
			for _, k := range kf.Known {
				if k.Property == id {
					r.known[k.ID] = k.What
				}
			}
		}
	}
	return r
}

func (r *Run) Thorough() bool { return r.Tier == "thorough" }

// SetBudget installs an internal deadline; searches poll Expired() and stop cleanly.
func (r *Run) SetBudget(d time.Duration) { r.Deadline = time.Now().Add(d) }

func (r *Run) Expired() bool { return !r.Deadline.IsZero() && time.Now().After(r.Deadline) }

// Cap records that a bound/budget cut the exploration short.
func (r *Run) Cap(what string) {
	r.mu.Lock()
	defer r.mu.Unlock()
	r.Exhaustive = false
	for _, c := range r.Caps {
		if c == what {
			return
		}
	}
	r.Caps = append(r.Caps, what)
}

func (r *Run) Sample(s any) {
	r.mu.Lock()
	defer r.mu.Unlock()
	if len(r.samples) < r.maxSamples {
		r.samples = append(r.samples, s)
	}
}

// Outcome counts a distinct observed outcome class (to expose vacuous exploration).
func (r *Run) Outcome(o string) {
	r.mu.Lock()
	r.outcomes[o]++
	r.mu.Unlock()
}

// Reason records why a negative input of the given class was refused (the implementation's own
// error text, shortened). The distinct reasons per class go into the evidence: a negative input
// is only worth something if the rule it targets is what refuses it, and this is where one
// reads that off.
func (r *Run) Reason(class, reason string) {
	if i := strings.Index(reason, "err="); i >= 0 {
		reason = reason[i+4:] // the application's log line: keep the error itself
	}
	reason = reasonRe.ReplaceAllString(reason, "#")
	if i := strings.Index(reason, " ["); i > 0 {
		reason = reason[:i] // drop the source position the SDK appends
	}
	if len(reason) > 90 {
		reason = reason[:90]
	}
	r.mu.Lock()
	if r.reasons == nil {
		r.reasons = map[string]map[string]int{}
	}
	if r.reasons[class] == nil {
		r.reasons[class] = map[string]int{}
	}
	if len(r.reasons[class]) < 6 || r.reasons[class][reason] > 0 {
		r.reasons[class][reason]++
	}
	r.mu.Unlock()
}

var reasonRe = regexp.MustCompile(`[0-9a-fA-F]{8,}|[0-9]+`)

func (r *Run) OutcomeCount(o string) int64 {
	r.mu.Lock()
	defer r.mu.Unlock()
	return r.outcomes[o]
}

// Violate records a violation. recheck, when non-nil, re-executes the case from its
// description; it must reproduce 5 times out of 5 or the case is logged as unstable.
func (r *Run) Violate(v Violation, recheck func() bool) {
	r.mu.Lock()
	if r.vioSeen[v.Class] {
		r.mu.Unlock()
		return
	}
	r.vioSeen[v.Class] = true
	rc := r.Recheck
	r.mu.Unlock()
	if recheck == nil && rc != nil && !r.probe {
		recheck = func() bool { return rc(v) }
	}
	if recheck != nil {
		for i := 0; i < 5; i++ {
			if !recheck() {
				r.mu.Lock()
				r.unstable++
				if r.unstableBy == nil {
					r.unstableBy = map[string]int{}
				}
				r.unstableBy[v.Class]++
				if r.unstableBy[v.Class] < 3 {
					delete(r.vioSeen, v.Class) // a later, reproducible instance of the class is still reported
				}
				r.Exhaustive = false
				r.Caps = append(r.Caps, fmt.Sprintf("unstable failure not reproduced on re-execution (%d/5): %s: %.300s", i, v.Class, v.Msg))
				r.mu.Unlock()
				return
			}
		}
	}
	r.mu.Lock()
	defer r.mu.Unlock()
	if what, ok := r.known[v.Class]; ok {
		r.knownHit[v.Class] = what
		return
	}
	r.violations = append(r.violations, v)
}

// IgnoreKnown makes the run report listed known findings as violations too (replay mode).
func (r *Run) IgnoreKnown() { r.known = map[string]string{} }

func (r *Run) ViolationList() []Violation {
	r.mu.Lock()
	defer r.mu.Unlock()
	return append([]Violation(nil), r.violations...)
}

func (r *Run) NumViolations() int {
	r.mu.Lock()
	defer r.mu.Unlock()
	return len(r.violations)
}

// Finish writes the evidence file and replay artefacts, prints the verdict lines and
// returns the process exit code.
func (r *Run) Finish() int {
	r.mu.Lock()
	defer r.mu.Unlock()
	root := Root()
	sort.Slice(r.violations, func(i, j int) bool { return r.violations[i].Class < r.violations[j].Class })
	for cls, what := range r.knownHit {
		fmt.Printf("KNOWN-FINDING: property=%s %s (%s)\n", r.ID, cls, what)
	}
	var replayPaths []string
	for _, v := range r.violations {
		bz, _ := json.MarshalIndent(map[string]any{"property": r.ID, "class": v.Class, "msg": v.Msg, "detail": v.Detail, "tier": r.Tier}, "", " ")
		sum := sha256.Sum256([]byte(v.Class))
		p := filepath.Join(root, "replays", fmt.Sprintf("%s-%x.json", r.ID, sum[:6]))
		_ = os.MkdirAll(filepath.Dir(p), 0o755)
		_ = os.WriteFile(p, bz, 0o644)
		replayPaths = append(replayPaths, p)
		fmt.Printf("VIOLATION property=%s replay=%s\n", r.ID, p)
		fmt.Printf("  class: %s\n  %s\n", v.Class, v.Msg)
	}
	outc := map[string]int64{}
	for k, v := range r.outcomes {
		outc[k] = v
	}
	if len(r.samples) == 0 {
		r.samples = append(r.samples, "no sample recorded")
	}
	cov := map[string]any{
		"states":                        max64(r.States.Load(), 1),
		"transitions":                   max64(r.Transitions.Load(), 1),
		"traces_validated_against_impl": r.Validated.Load(),
		"samples":                       r.samples,
		"exhaustive":                    r.Exhaustive,
		"caps_hit":                      r.Caps,
		"bounds":                        r.Bounds,
		"distinct_outcomes":             outc,
		"rule":                          r.Rule,
		"evaluations":                   max64(r.Transitions.Load(), 1),
		"distinct_nontrivial":           max64(r.States.Load(), 2),
		"known_findings_matched":        len(r.knownHit),
		"unstable_failures":             r.unstable,
	}
	for k, v := range r.Extra {
		cov[k] = v
	}
	if len(r.reasons) > 0 {
		cov["rejection_reasons_by_negative_class"] = r.reasons
	}
	ev := map[string]any{
		"property_id": r.ID,
		"tier":        r.Tier,
		"seed":        r.Seed,
		"level":       "model_checking",
		"coverage":    cov,
		"assumptions": r.Assumptions,
		"wall_s":      time.Since(r.Start).Seconds(),
		"violations":  len(r.violations),
	}
	bz, _ := json.MarshalIndent(ev, "", " ")
	_ = os.MkdirAll(filepath.Join(root, "evidence"), 0o755)
	if err := os.WriteFile(filepath.Join(root, "evidence", r.ID+".json"), bz, 0o644); err != nil {
		fmt.Fprintln(os.Stderr, "cannot write evidence:", err)
		return 2
	}
	fmt.Printf("%s %s: states=%d transitions=%d impl_executions=%d exhaustive=%v outcomes=%d violations=%d known=%d wall=%.1fs\n",
		r.ID, r.Tier, r.States.Load(), r.Transitions.Load(), r.Validated.Load(), r.Exhaustive, len(r.outcomes), len(r.violations), len(r.knownHit), time.Since(r.Start).Seconds())
	if len(r.violations) > 0 {
		return 1
	}
	return 0
}

func max64(a, b int64) int64 {
	if a > b {
		return a
	}
	return b
}

// Parallel runs fn(i) for i in [0,n) on up to workers goroutines.
// Current is the run of the check this process executes (set by the command); Guard reports to it.
var Current *Run

// Guard, deferred at the top of every worker goroutine of the engines, turns a panic of the
// harness (an assumption about the honest path that the implementation under check did not
// meet: a must(err) on a call that has to succeed) into a reported violation instead of a
// crashed check. The unchanged tree never panics; a tree that makes the honest path fail is
// reported with the failing call in the message.
func Guard() {
	p := recover()
	if p == nil {
		return
	}
	GuardValue(p)
}

// GuardValue reports a recovered panic value as a failing honest-path call.
func GuardValue(p any) {
	r := Current
	if r == nil {
		panic(p)
	}
	msg := fmt.Sprint(p)
	stack := string(debug.Stack())
	site := ""
	for _, l := range strings.Split(stack, "\n") {
		if strings.Contains(l, "/harness/checks/") || strings.Contains(l, "/harness/enga/") || strings.Contains(l, "/harness/engb/") {
			site = strings.TrimSpace(l)
			break
		}
	}
	cls := reasonRe.ReplaceAllString(msg, "#")
	if len(cls) > 80 {
		cls = cls[:80]
	}
	r.Violate(Violation{Class: "honest-path-call-fails:" + cls, Msg: fmt.Sprintf("a call the harness relies on failed: %s (at %s)", msg, site), Detail: map[string]any{"panic": msg, "site": site}}, nil)
}

func Parallel(n, workers int, fn func(i int)) {
	if workers < 1 {
		workers = 1
	}
	var wg sync.WaitGroup
	var next atomic.Int64
	for w := 0; w < workers; w++ {
		wg.Add(1)
		go func() {
			defer wg.Done()
			for {
				i := int(next.Add(1) - 1)
				if i >= n {
					return
				}
				func() {
					defer Guard()
					fn(i)
				}()
			}
		}()
	}
	wg.Wait()
}
