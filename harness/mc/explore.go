package mc

import (
	"crypto/sha256"
	"runtime"
	"sync"
)

// Node is an opaque search node owned by an Instance.
type Node any

// Instance is one worker's copy of the system under exploration. Step executes the
// real implementation for one transition, evaluates the check's oracles (recording
// violations on the Run) and returns the successor (nil ends the path).
type Instance[B any] interface {
	Root() Node
	Menu(n Node, depth int) []B
	Step(n Node, b B, path []B, silent bool) Node
	Key(n Node) string
	Close()
}

// Search is a depth-bounded DFS with canonical-state de-duplication, iterative
// deepening (shortest counter-example first) and two-level work sharding.
type Search[B any] struct {
	Run         *Run
	NewInstance func() (Instance[B], error)
	Depth       int
	Completed   int
	Workers     int

	shards [64]struct {
		mu sync.Mutex
		m  map[[16]byte]int8
	}
}

func (s *Search[B]) visit(key string, remaining int) bool {
	sum := sha256.Sum256([]byte(key))
	var k [16]byte
	copy(k[:], sum[:16])
	sh := &s.shards[sum[31]%64]
	sh.mu.Lock()
	defer sh.mu.Unlock()
	if sh.m == nil {
		sh.m = map[[16]byte]int8{}
	}
	old, ok := sh.m[k]
	if ok && int(old) >= remaining {
		return false
	}
	if !ok {
		s.Run.States.Add(1)
	}
	sh.m[k] = int8(remaining)
	return true
}

func (s *Search[B]) dfs(in Instance[B], n Node, path []B, depth int) {
	if depth >= s.Depth {
		return
	}
	if s.Run.Expired() {
		s.Run.Cap("time budget reached during DFS")
		return
	}
	if !s.visit(in.Key(n), s.Depth-depth) {
		return
	}
	for _, b := range in.Menu(n, depth) {
		p := append(append([]B{}, path...), b)
		s.Run.Transitions.Add(1)
		s.Run.Validated.Add(1)
		next := in.Step(n, b, p, false)
		if next != nil {
			s.dfs(in, next, p, depth+1)
		}
	}
}

// Explore runs the search up to s.Depth.
func (s *Search[B]) Explore() error {
	max := s.Depth
	base := s.Run.States.Load()
	for d := 1; d <= max; d++ {
		s.Depth = d
		for i := range s.shards {
			s.shards[i].m = nil
		}
		s.Run.States.Store(base)
		if err := s.once(); err != nil {
			return err
		}
		if s.Run.NumViolations() > 0 || s.Run.Expired() {
			break
		}
		s.Completed = d
	}
	s.Depth = max
	return nil
}

func (s *Search[B]) once() error {
	in0, err := s.NewInstance()
	if err != nil {
		return err
	}
	root := in0.Root()
	s.visit(in0.Key(root), s.Depth)
	first := in0.Menu(root, 0)
	type job struct{ i, j int }
	var jobs []job
	for i, b := range first {
		s.Run.Transitions.Add(1)
		s.Run.Validated.Add(1)
		next := in0.Step(root, b, []B{b}, false)
		if next == nil || s.Depth < 2 {
			continue
		}
		if !s.visit(in0.Key(next), s.Depth-1) {
			continue
		}
		for j := range in0.Menu(next, 1) {
			jobs = append(jobs, job{i, j})
		}
	}
	in0.Close()
	if len(jobs) == 0 {
		return nil
	}
	workers := s.Workers
	if workers == 0 {
		workers = runtime.NumCPU()
	}
	if workers > len(jobs) {
		workers = len(jobs)
	}
	ch := make(chan job, len(jobs))
	for _, jb := range jobs {
		ch <- jb
	}
	close(ch)
	var wg sync.WaitGroup
	var mu sync.Mutex
	var firstErr error
	for wk := 0; wk < workers; wk++ {
		wg.Add(1)
		go func() {
			defer wg.Done()
			in, err := s.NewInstance()
			if err != nil {
				mu.Lock()
				firstErr = err
				mu.Unlock()
				return
			}
			defer in.Close()
			root := in.Root()
			lastI := -1
			var mid Node
			for jb := range ch {
				if jb.i != lastI {
					mid = in.Step(root, first[jb.i], []B{first[jb.i]}, true)
					if mid == nil {
						panic("search: level-1 step not reproducible")
					}
					lastI = jb.i
				}
				b2 := in.Menu(mid, 1)[jb.j]
				p := []B{first[jb.i], b2}
				s.Run.Transitions.Add(1)
				s.Run.Validated.Add(1)
				next := in.Step(mid, b2, p, false)
				if next != nil {
					s.dfs(in, next, p, 2)
				}
			}
		}()
	}
	wg.Wait()
	return firstErr
}

// ReplayPath runs a path linearly on a fresh instance (monitors active).
func ReplayPath[B any](newInstance func() (Instance[B], error), path []B) error {
	in, err := newInstance()
	if err != nil {
		return err
	}
	defer in.Close()
	n := in.Root()
	for i := range path {
		n = in.Step(n, path[i], path[:i+1], false)
		if n == nil {
			return nil
		}
	}
	return nil
}
