package mc

import (
	"crypto/sha256"
	"runtime"
	"sync"
)

// Node is an opaque search node owned by an Instance.
type Node any

// Instance is one worker's copy of the system under exploration. Step executes the
// real implementation for one transition, evaluates the check's oracles (recording
// violations on the Run) and returns the successor (nil ends the path).
type Instance[B any] interface {
	Root() Node
	Menu(n Node, depth int) []B
	Step(n Node, b B, path []B, silent bool) Node
	Key(n Node) string
	Close()
}

// Search is a depth-bounded DFS with canonical-state de-duplication, iterative
// deepening (shortest counter-example first) and two-level work sharding.
type Search[B any] struct {
	Run         *Run
	NewInstance func() (Instance[B], error)
	Depth       int
	Completed   int
	Workers     int

	shards [64]struct {
		mu sync.Mutex
		m  map[[16]byte]int8
	}
}

func (s *Search[B]) visit(key string, remaining int) bool {
	sum := sha256.Sum256([]byte(key))
	var k [16]byte
	copy(k[:], sum[:16])
	sh := &s.shards[sum[31]%64]
	sh.mu.Lock()
	defer sh.mu.Unlock()
	if sh.m == nil {
		sh.m = map[[16]byte]int8{}
	}
	old, ok := sh.m[k]
	if ok && int(old) >= remaining {
		return false
	}
	if !ok {
		s.Run.States.Add(1)
	}
	sh.m[k] = int8(remaining)
	return true
}

func (s *Search[B]) dfs(in Instance[B], n Node, path []B, depth int) {
	if depth >= s.Depth {
		return
	}
	if s.Run.Expired() {
		s.Run.Cap("time budget reached during DFS")
		return
	}
	if !s.visit(in.Key(n), s.Depth-depth) {
		return
	}
	for _, b := range in.Menu(n, depth) {
		p := append(append([]B{}, path...), b)
		s.Run.Transitions.Add(1)
		s.Run.Validated.Add(1)
		next := in.Step(n, b, p, false)
		if next != nil {
			s.dfs(in, next, p, depth+1)
		}
	}
}

// Explore runs the search up to s.Depth.
func (s *Search[B]) Explore() error {
	max := s.Depth
	base := s.Run.States.Load()
	for d := 1; d <= max; d++ {
		s.Depth = d
		for i := range s.shards {
			s.shards[i].m = nil
		}
		s.Run.States.Store(base)
		if err := s.once(); err != nil {
			return err
		}
		if s.Run.NumViolations() > 0 || s.Run.Expired() {
			break
		}
		s.Completed = d
	}
	s.Depth = max
	return nil
}

func (s *Search[B]) once() error {
	// Serial BFS pre-pass on one instance until there are enough prefixes to shard.
	in0, err := s.NewInstance()
	if err != nil {
		return err
	}
	type item struct {
		n    Node
		path []B
	}
	workers := s.Workers
	if workers == 0 {
		workers = runtime.NumCPU()
	}
	frontier := []item{{in0.Root(), nil}}
	level := 0
	for level < s.Depth && len(frontier) > 0 && len(frontier) < 4*workers {
		var next []item
		for _, it := range frontier {
			if !s.visit(in0.Key(it.n), s.Depth-level) {
				continue
			}
			for _, b := range in0.Menu(it.n, level) {
				p := append(append([]B{}, it.path...), b)
				s.Run.Transitions.Add(1)
				s.Run.Validated.Add(1)
				if nn := in0.Step(it.n, b, p, false); nn != nil {
					next = append(next, item{nn, p})
				}
			}
		}
		frontier = next
		level++
	}
	var paths [][]B
	for _, it := range frontier {
		paths = append(paths, it.path)
	}
	in0.Close()
	if len(paths) == 0 || level >= s.Depth {
		return nil
	}
	if workers > len(paths) {
		workers = len(paths)
	}
	ch := make(chan []B, len(paths))
	for _, p := range paths {
		ch <- p
	}
	close(ch)
	var wg sync.WaitGroup
	var mu sync.Mutex
	var firstErr error
	for wk := 0; wk < workers; wk++ {
		wg.Add(1)
		go func() {
			defer wg.Done()
			defer Guard()
			in, err := s.NewInstance()
			if err != nil {
				mu.Lock()
				firstErr = err
				mu.Unlock()
				return
			}
			defer in.Close()
			for p := range ch {
				n := in.Root()
				for i := range p {
					n = in.Step(n, p[i], p[:i+1], true) // silent re-execution of the prefix
					if n == nil {
						panic("search: prefix not reproducible")
					}
				}
				s.dfs(in, n, p, len(p))
			}
		}()
	}
	wg.Wait()
	return firstErr
}

// ReplayPath runs a path linearly on a fresh instance (monitors active).
func ReplayPath[B any](newInstance func() (Instance[B], error), path []B) error {
	in, err := newInstance()
	if err != nil {
		return err
	}
	defer in.Close()
	n := in.Root()
	for i := range path {
		n = in.Step(n, path[i], path[:i+1], false)
		if n == nil {
			return nil
		}
	}
	return nil
}
