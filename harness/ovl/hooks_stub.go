//go:build !verifovl

// Package ovl: stub used by the plain build (no overlay).
package ovl

const Enabled = false

func SetMapIterHook(f func(pc uintptr, count int, B uint8) uint64) { panic("not an overlay build") }
func SetNowOffset(sec int64)                                       { panic("not an overlay build") }
func SetScheduler(spawn func(run func()), wait func())             { panic("not an overlay build") }
func SetKVHook(f func(op string, key []byte))                      { panic("not an overlay build") }
