//go:build verifovl

// Package ovl exposes the hooks that the instrumented build (go build -overlay, tag
// verifovl) adds to two GOROOT files and two dependency files. /repo is not touched.
package ovl

import (
	"time"
	_ "unsafe"

	sdkruntime "github.com/cosmos/cosmos-sdk/runtime"
	"golang.org/x/sync/errgroup"
)

// Enabled reports whether this binary was built with the overlay.
const Enabled = true

//go:linkname setMapIterHook runtime.verifSetMapIterHook
func setMapIterHook(f func(pc uintptr, count int, B uint8) uint64)

// SetMapIterHook makes the calling goroutine the target goroutine: the start of each of
// its map iterations is taken from f (nil restores the runtime's random choice).
func SetMapIterHook(f func(pc uintptr, count int, B uint8) uint64) { setMapIterHook(f) }

// SetNowOffset shifts time.Now by a constant number of seconds.
func SetNowOffset(sec int64) { time.VerifNowOffset = sec }

// SetScheduler installs the controlled scheduler's spawn/wait callbacks into errgroup.
func SetScheduler(spawn func(run func()), wait func()) {
	errgroup.VerifSpawn = spawn
	errgroup.VerifWait = wait
}

// SetKVHook installs the per-operation hook of the module stores.
func SetKVHook(f func(op string, key []byte)) { sdkruntime.VerifKVHook = f }
