package main

import (
	"fmt"

	sdk "github.com/cosmos/cosmos-sdk/types"
	"verifharness/enga"
	"verifharness/sim"
)

func main() {
	g := sim.DefaultCfg(1, 1)
	g.Vals[0].Power = 5
	g.Vals[0].Locking = sdk.NewCoins(sdk.NewCoin("btc", sim.Theta.MulRaw(5)))
	g.LockingParams.UnlockDuration = 2e9
	g.LockingParams.ExitingDuration = 5e9
	w, err := enga.NewWorld(g)
	if err != nil {
		panic(err)
	}
	for _, b := range []enga.ABlock{{Events: []enga.Event{{Kind: "req:unlock", N: 1}}}, {}, {}, {}, {}} {
		r := w.Run(b)
		fmt.Println(b.String(), "err", r.Err, "stage", r.Stage, "ethOK", r.EthOK)
		if r.Finalize != nil {
			fmt.Println("   ", r.Finalize.TxResults[0].Code, r.Finalize.TxResults[0].Log)
		}
	}
}
