package main

import (
	"fmt"

	sdk "github.com/cosmos/cosmos-sdk/types"
	"verifharness/sim"
)

func main() {
	n, err := sim.NewChain(sim.DefaultCfg(1, 1))
	if err != nil {
		panic(err)
	}
	reg := n.App.AppCodec().InterfaceRegistry()
	for _, u := range reg.ListImplementations(sdk.MsgInterfaceProtoName) {
		fmt.Println(u, n.App.MsgServiceRouter().HandlerByTypeURL(u) != nil)
	}
}
