package main

import (
	"fmt"
	"runtime"
	"time"

	"verifharness/ovl"
)

func main() {
	fmt.Println("overlay enabled:", ovl.Enabled)
	m := map[string]int{"a": 1, "b": 2, "c": 3}
	for start := uint64(0); start < 8; start++ {
		s := start
		ovl.SetMapIterHook(func(pc uintptr, count int, B uint8) uint64 {
			_ = runtime.FuncForPC(pc).Name()
			return s
		})
		out := ""
		for k := range m {
			out += k
		}
		ovl.SetMapIterHook(nil)
		fmt.Print(out, " ")
	}
	fmt.Println()
	ovl.SetNowOffset(400 * 86400)
	fmt.Println(time.Now().UTC())
}
