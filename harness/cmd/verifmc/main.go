// verifmc runs the exhaustive bounded checks of /verif against the goat tree in /repo.
package main

import (
	"encoding/json"
	"fmt"
	"os"
	"runtime/debug"
	"strconv"
	"runtime/pprof"

	"verifharness/checks"
	"verifharness/mc"
	"verifharness/sim"
)

func usage() {
	fmt.Fprintln(os.Stderr, "usage: verifmc check <ID> [--tier quick|thorough] | verifmc replay <file> | verifmc list")
	os.Exit(2)
}

func main() {
	if len(os.Args) < 2 {
		usage()
	}
	switch os.Args[1] {
	case "list":
		for _, id := range checks.IDs() {
			fmt.Println(id)
		}
	case "check":
		if len(os.Args) < 3 {
			usage()
		}
		id := os.Args[2]
		tier := os.Getenv("VERIF_TIER")
		for i := 3; i < len(os.Args); i++ {
			if os.Args[i] == "--tier" && i+1 < len(os.Args) {
				tier = os.Args[i+1]
			}
		}
		if tier != "thorough" {
			tier = "quick"
		}
		c := checks.Get(id)
		if c == nil {
			fmt.Fprintln(os.Stderr, "unknown check", id)
			os.Exit(2)
		}
		debug.SetGCPercent(400)
		r := mc.NewRun(id, tier)
		mc.Current = r
		if pf := os.Getenv("VERIF_PPROF"); pf != "" {
			f, _ := os.Create(pf)
			_ = pprof.StartCPUProfile(f)
			defer pprof.StopCPUProfile()
		}
		func() {
			defer func() {
				if p := recover(); p != nil {
					// the check's own routine relies on honest-path calls of the implementation succeeding
					// (a chain boots, an honest block is accepted): when one fails, that is the verdict - on
					// the unchanged tree none does. The stack goes to stderr for the case that it is the harness.
					fmt.Fprintf(os.Stderr, "check %s aborted: %v\n%s\n", id, p, debug.Stack())
					mc.GuardValue(p)
					r.Cap("the check's main routine was aborted by a failing honest-path call")
				}
			}()
			c.Run(r)
		}()
		if n := sim.DeadlineRetries.Load(); n > 0 {
			r.Extra["proposal_rounds_repeated_after_wall_clock_deadline"] = n
		}
		code := r.Finish()
		pprof.StopCPUProfile()
		sim.CleanupTemp()
		os.Exit(code)
	case "c07worker":
		idx, _ := strconv.Atoi(os.Args[3])
		n, _ := strconv.Atoi(os.Args[4])
		checks.C07Worker(os.Args[2], idx, n, len(os.Args) > 5 && os.Args[5] == "thorough")
		sim.CleanupTemp()
	case "c07local":
		d, _ := strconv.Atoi(os.Args[3])
		checks.C07LocalWorker(os.Args[2], d)
		sim.CleanupTemp()
	case "c07clock":
		checks.C07Clock(os.Args[2], os.Args[3])
		sim.CleanupTemp()
	case "c08sched":
		b, _ := strconv.Atoi(os.Args[3])
		sec, _ := strconv.Atoi(os.Args[4])
		checks.C08SchedWorker(os.Args[2], b, sec)
		sim.CleanupTemp()
	case "c08race":
		n, _ := strconv.Atoi(os.Args[2])
		checks.C08RaceWorker(n)
		sim.CleanupTemp()
	case "c19worker":
		from, _ := strconv.Atoi(os.Args[3])
		to, _ := strconv.Atoi(os.Args[4])
		checks.C19Worker(os.Args[2], from, to, len(os.Args) > 5 && os.Args[5] == "thorough")
		sim.CleanupTemp()
	case "replay":
		if len(os.Args) < 3 {
			usage()
		}
		bz, err := os.ReadFile(os.Args[2])
		if err != nil {
			fmt.Fprintln(os.Stderr, err)
			os.Exit(2)
		}
		var art struct {
			Property string          `json:"property"`
			Class    string          `json:"class"`
			Detail   json.RawMessage `json:"detail"`
		}
		if err := json.Unmarshal(bz, &art); err != nil {
			fmt.Fprintln(os.Stderr, err)
			os.Exit(2)
		}
		c := checks.Get(art.Property)
		if c == nil || c.Replay == nil {
			fmt.Fprintln(os.Stderr, "no replay function for", art.Property)
			os.Exit(2)
		}
		ok, msg := c.Replay(art.Detail)
		fmt.Printf("replay %s class=%q reproduced=%v: %s\n", art.Property, art.Class, ok, msg)
		if ok {
			os.Exit(1)
		}
	default:
		usage()
	}
}
