// Package sched is Engine D: a controlled scheduler for the goroutines that goat forks
// through errgroup (PrepareProposalHandler, verifyEthBlockProposal). Threads are real
// goroutines but exactly one runs at a time; scheduling points are thread start, thread
// end and every module-store operation (the only accesses to shared logical state in
// those bodies); a controlled thread may fork a nested group, whose Wait() blocks it until the
// members have finished. Exploration is the iterative preemption-bounded DFS of Musuvathi/Qadeer.
package sched

import (
	"fmt"
	"time"

	"verifharness/ovl"
)

type thread struct {
	id      int
	run     func()
	resume  chan struct{}
	yielded chan bool // true = finished
	done    bool
	started bool
	parent  *thread // the controlled thread that forked this one (nested group), nil for the top level
	waiting bool    // inside Wait() of a nested group
}

// Point is one scheduling decision.
type Point struct {
	Enabled        []int // thread ids in canonical order (running thread first if still enabled)
	RunningEnabled bool
	Chosen         int // index into Enabled
	Op             string
}

// Execution is one complete run under the scheduler.
type Execution struct {
	Points  []Point
	Choices []int
	Threads int
	Err     string
}

func (x *Execution) preemptionsBefore(i int) int {
	n := 0
	for k := 0; k < i; k++ {
		if x.Points[k].RunningEnabled && x.Points[k].Chosen != 0 {
			n++
		}
	}
	return n
}

type controller struct {
	prefix  []int
	threads []*thread
	current *thread
	inWait  bool
	exec    *Execution
	lastOp  string
	failed  string
}

var ctl *controller

// Watchdog is how long the controller waits for the scheduled thread to reach its next
// scheduling point before declaring an internal error (never a verdict).
var Watchdog = 20 * time.Second

func spawn(run func()) {
	c := ctl
	t := &thread{id: len(c.threads), run: run, resume: make(chan struct{}), yielded: make(chan bool)}
	if c.inWait && c.current != nil {
		t.parent = c.current // forked by the running controlled thread: a nested group
	}
	c.threads = append(c.threads, t)
	go func() {
		<-t.resume
		t.run()
		t.yielded <- true
	}()
}

func kvHook(op string, key []byte) {
	c := ctl
	if c == nil || !c.inWait || c.current == nil {
		return
	}
	t := c.current
	c.lastOp = op
	t.yielded <- false
	<-t.resume
}

// blocked reports whether t sits in the Wait() of a nested group with unfinished members.
func (c *controller) blocked(t *thread) bool {
	if !t.waiting {
		return false
	}
	for _, o := range c.threads {
		if o.parent == t && !o.done {
			return true
		}
	}
	return false
}

func wait() {
	c := ctl
	if c == nil || len(c.threads) == 0 {
		return
	}
	if c.inWait && c.current != nil {
		// Wait() of a group forked by the running controlled thread: a blocking operation. The
		// thread is not enabled again before all members of its group have finished.
		t := c.current
		t.waiting = true
		for c.blocked(t) {
			c.lastOp = "wait"
			t.yielded <- false
			<-t.resume
		}
		t.waiting = false
		return
	}
	c.inWait = true
	defer func() { c.inWait = false; c.current = nil; c.threads = nil }()
	for {
		var enabled []*thread
		runningEnabled := c.current != nil && !c.current.done && !c.blocked(c.current)
		if runningEnabled {
			enabled = append(enabled, c.current)
		}
		unfinished := 0
		for _, t := range c.threads {
			if !t.done {
				unfinished++
			}
			if !t.done && t != c.current && !c.blocked(t) {
				enabled = append(enabled, t)
			}
		}
		if len(enabled) == 0 {
			if unfinished > 0 {
				c.failed = "deadlock: every unfinished thread is blocked"
			}
			return
		}
		choice := 0
		i := len(c.exec.Points)
		if i < len(c.prefix) {
			choice = c.prefix[i]
			if choice >= len(enabled) {
				c.failed = fmt.Sprintf("replay divergence: choice %d at point %d but only %d threads enabled", choice, i, len(enabled))
				choice = 0
			}
		}
		ids := make([]int, len(enabled))
		for k, t := range enabled {
			ids[k] = t.id
		}
		c.exec.Points = append(c.exec.Points, Point{Enabled: ids, RunningEnabled: runningEnabled, Chosen: choice, Op: c.lastOp})
		c.exec.Choices = append(c.exec.Choices, choice)
		t := enabled[choice]
		c.current = t
		t.started = true
		select {
		case t.resume <- struct{}{}:
		case <-time.After(Watchdog):
			c.failed = "watchdog: the chosen thread does not take over"
			c.inWait = false
			return
		}
		select {
		case fin := <-t.yielded:
			if fin {
				t.done = true
			}
		case <-time.After(Watchdog):
			c.failed = "watchdog: scheduled thread reached no scheduling point"
			// let everything run free so that the process can finish
			c.inWait = false
			go func() {
				for _, o := range c.threads {
					if !o.started {
						o.resume <- struct{}{}
					}
				}
			}()
			return
		}
	}
}

// Run executes body under the scheduler, replaying prefix and then always taking choice 0.
func Run(prefix []int, body func()) *Execution {
	if !ovl.Enabled {
		panic("sched needs the overlay build")
	}
	c := &controller{prefix: prefix, exec: &Execution{}}
	ctl = c
	ovl.SetScheduler(spawn, wait)
	ovl.SetKVHook(kvHook)
	body()
	ovl.SetScheduler(nil, nil)
	ovl.SetKVHook(nil)
	ctl = nil
	c.exec.Err = c.failed
	return c.exec
}

// Explore enumerates every schedule with at most `bound` preemptions. check is called
// with each execution; it returns false to stop.
type Stats struct {
	Executions int
	MaxPoints  int
	Bound      int
	Errors     []string
}

func Explore(bound int, budget time.Time, body func(prefix []int) *Execution, check func(x *Execution) bool) Stats {
	st := Stats{Bound: bound}
	var rec func(prefix []int) bool
	rec = func(prefix []int) bool {
		if !budget.IsZero() && time.Now().After(budget) {
			st.Errors = append(st.Errors, "budget")
			return false
		}
		x := body(prefix)
		st.Executions++
		if len(x.Points) > st.MaxPoints {
			st.MaxPoints = len(x.Points)
		}
		if x.Err != "" {
			st.Errors = append(st.Errors, x.Err)
			return false
		}
		if !check(x) {
			return false
		}
		for i := len(prefix); i < len(x.Points); i++ {
			p := x.Points[i]
			cost := x.preemptionsBefore(i)
			if p.RunningEnabled {
				cost++
			}
			if cost > bound {
				continue
			}
			for alt := 1; alt < len(p.Enabled); alt++ {
				np := append(append([]int{}, x.Choices[:i]...), alt)
				if !rec(np) {
					return false
				}
			}
		}
		return true
	}
	rec(nil)
	return st
}
