package sim

import (
	"context"
	"crypto/sha256"
	"encoding/binary"
	"errors"
	"fmt"
	"math/big"
	"net"
	"os"
	"path/filepath"
	"sync"
	"time"

	"github.com/ethereum/go-ethereum/beacon/engine"
	"github.com/ethereum/go-ethereum/common"
	"github.com/ethereum/go-ethereum/common/hexutil"
	"github.com/ethereum/go-ethereum/core/types/goattypes"
	"github.com/ethereum/go-ethereum/params"
	"github.com/ethereum/go-ethereum/rpc"
)

// FaultKind is a deviation from the well-behaved engine answer.
type FaultKind int

const (
	FaultNone FaultKind = iota
	FaultError
	FaultInvalid
	FaultSyncing
	FaultAccepted
	FaultNoPayloadID
	FaultStall
	// FaultOutage: the engine goes away in the middle of the call - the connection is cut without an
	// answer and nothing listens on the socket for OutageFor (a crash and restart of the execution
	// client). A transport-level fault, unlike the JSON-RPC error object of FaultError.
	FaultOutage
)

func (f FaultKind) String() string {
	return [...]string{"none", "error", "INVALID", "SYNCING", "ACCEPTED", "no-payload-id", "stall", "outage"}[f]
}

// Call is one engine API call as seen by the fake execution layer.
type Call struct {
	Method string `json:"method"`
	Digest string `json:"digest"` // canonical digest of the arguments
	Answer string `json:"answer"`
	// decoded details for monitors
	Head, Safe, Finalized common.Hash `json:"-"`
	HasAttrs              bool        `json:"-"`
	GoatTxs               [][]byte    `json:"-"`
	BlockHash             common.Hash `json:"-"`
}

type elBlock struct {
	Data     engine.ExecutableData
	Requests [][]byte
	Beacon   common.Hash
}

type buildJob struct {
	parent common.Hash
	attrs  engine.PayloadAttributes
}

// ELSim is a deterministic, scriptable fake goat-geth. It is served over a unix
// socket and reached through goat's real ethrpc.Client.
type ELSim struct {
	mu   sync.Mutex
	srv  *rpc.Server
	ln   net.Listener
	Dir  string
	Path string

	blocks    map[common.Hash]*elBlock
	Head      common.Hash
	Safe      common.Hash
	Finalized common.Hash
	jobs      map[engine.PayloadID]*buildJob
	jobSeq    uint64

	// script
	HiccupOnce  time.Duration             // delay the next payload-building forkchoiceUpdated once (no fault)
	Canonical   bool                      // timestamp/random are functions of the parent
	GasAmount   *big.Int                  // gas revenue reported in every built payload
	NextLocking goattypes.LockingRequests // requests (besides Gas) for the next built payloads
	NextBridge  goattypes.BridgeRequests
	NextRelayer goattypes.RelayerRequests
	RawRequests [][]byte // if non-nil, used verbatim instead of the three above
	UserTxs     [][]byte // appended after the system txs
	OmitGas     bool

	Faults  map[int]FaultKind // call index (since ResetCalls) -> fault
	calls   int
	Log     []Call
	StallBy time.Duration

	OutageFor time.Duration
	connMu    sync.Mutex
	conns     []net.Conn
	up        chan struct{} // closed while the engine is reachable
}

// trackLn remembers the accepted connections so that an outage can cut them.
type trackLn struct {
	net.Listener
	el *ELSim
}

func (t trackLn) Accept() (net.Conn, error) {
	c, err := t.Listener.Accept()
	if err == nil {
		t.el.connMu.Lock()
		t.el.conns = append(t.el.conns, c)
		t.el.connMu.Unlock()
	}
	return c, err
}

// outage cuts every connection, stops listening and comes back after OutageFor.
func (el *ELSim) outage() {
	el.connMu.Lock()
	conns, ln := el.conns, el.ln
	el.conns = nil
	el.up = make(chan struct{})
	up := el.up
	el.connMu.Unlock()
	ln.Close()
	for _, c := range conns {
		c.Close()
	}
	go func() {
		time.Sleep(el.OutageFor)
		_ = os.Remove(el.Path)
		nl, err := net.Listen("unix", el.Path)
		if err == nil {
			el.connMu.Lock()
			el.ln = trackLn{nl, el}
			l := el.ln
			el.connMu.Unlock()
			go func() { _ = el.srv.ServeListener(l) }()
		}
		close(up)
	}()
}

// WaitUp blocks until the engine is reachable again after an outage.
func (el *ELSim) WaitUp() {
	el.connMu.Lock()
	up := el.up
	el.connMu.Unlock()
	if up != nil {
		<-up
	}
}

type engineAPI struct{ el *ELSim }

// NewELSim starts a fake execution layer with the given genesis block.
func NewELSim(genesis *engine.ExecutableData) (*ELSim, error) {
	dir, err := os.MkdirTemp("", "elsim")
	if err != nil {
		return nil, err
	}
	noteTemp(dir)
	el := &ELSim{
		Dir: dir, Path: filepath.Join(dir, "geth.ipc"),
		blocks: map[common.Hash]*elBlock{}, jobs: map[engine.PayloadID]*buildJob{},
		Canonical: true, GasAmount: big.NewInt(0), Faults: map[int]FaultKind{},
		StallBy: 1500 * time.Millisecond, OutageFor: 900 * time.Millisecond,
	}
	el.blocks[genesis.BlockHash] = &elBlock{Data: *genesis}
	el.Head = genesis.BlockHash
	el.srv = rpc.NewServer()
	if err := el.srv.RegisterName("engine", &engineAPI{el}); err != nil {
		return nil, err
	}
	nl, err := net.Listen("unix", el.Path)
	if err != nil {
		return nil, err
	}
	el.ln = trackLn{nl, el}
	l := el.ln
	go func() { _ = el.srv.ServeListener(l) }()
	return el, nil
}

func (el *ELSim) Close() {
	el.WaitUp()
	el.connMu.Lock()
	ln := el.ln
	el.connMu.Unlock()
	ln.Close()
	el.srv.Stop()
	os.RemoveAll(el.Dir)
}

// ResetCalls clears the call log and the call counter (start of a phase).
func (el *ELSim) ResetCalls() {
	el.mu.Lock()
	defer el.mu.Unlock()
	el.calls = 0
	el.Log = nil
}

func (el *ELSim) SetFaults(f map[int]FaultKind) {
	el.mu.Lock()
	defer el.mu.Unlock()
	el.Faults = f
	if el.Faults == nil {
		el.Faults = map[int]FaultKind{}
	}
}

// HasFaults reports whether any engine fault is scripted.
func (el *ELSim) HasFaults() bool {
	el.mu.Lock()
	defer el.mu.Unlock()
	return len(el.Faults) > 0
}

func (el *ELSim) Calls() []Call {
	el.mu.Lock()
	defer el.mu.Unlock()
	return append([]Call(nil), el.Log...)
}

func (el *ELSim) ClearRequests() {
	el.mu.Lock()
	defer el.mu.Unlock()
	el.NextLocking = goattypes.LockingRequests{}
	el.NextBridge = goattypes.BridgeRequests{}
	el.NextRelayer = goattypes.RelayerRequests{}
	el.RawRequests = nil
	el.UserTxs = nil
	el.OmitGas = false
}

// Block returns a known block.
func (el *ELSim) Block(h common.Hash) (*engine.ExecutableData, [][]byte, bool) {
	el.mu.Lock()
	defer el.mu.Unlock()
	b, ok := el.blocks[h]
	if !ok {
		return nil, nil, false
	}
	d := b.Data
	return &d, b.Requests, true
}

func (el *ELSim) fault() FaultKind {
	f := el.Faults[el.calls]
	el.calls++
	return f
}

func digest(parts ...[]byte) string {
	h := sha256.New()
	for _, p := range parts {
		var l [8]byte
		binary.LittleEndian.PutUint64(l[:], uint64(len(p)))
		h.Write(l[:])
		h.Write(p)
	}
	return fmt.Sprintf("%x", h.Sum(nil)[:12])
}

// ComputeBlockHash is the fake execution layer's block-hash function.
func ComputeBlockHash(d *engine.ExecutableData, beacon common.Hash, requests [][]byte) common.Hash {
	h := sha256.New()
	w := func(b []byte) {
		var l [8]byte
		binary.LittleEndian.PutUint64(l[:], uint64(len(b)))
		h.Write(l[:])
		h.Write(b)
	}
	w(d.ParentHash[:])
	w(d.FeeRecipient[:])
	w(d.Random[:])
	var n [24]byte
	binary.LittleEndian.PutUint64(n[:8], d.Number)
	binary.LittleEndian.PutUint64(n[8:16], d.Timestamp)
	binary.LittleEndian.PutUint64(n[16:], d.GasUsed)
	w(n[:])
	w(d.ExtraData)
	for _, t := range d.Transactions {
		w(t)
	}
	// like a real header hash, every field of the payload is covered: whatever the consensus layer
	// drops or alters between the payload it stores and the one it shows the engine changes the hash
	w(d.StateRoot[:])
	w(d.ReceiptsRoot[:])
	w(d.LogsBloom)
	var m [32]byte
	binary.LittleEndian.PutUint64(m[:8], d.GasLimit)
	if d.BlobGasUsed != nil {
		binary.LittleEndian.PutUint64(m[8:16], *d.BlobGasUsed)
		m[24] |= 1
	}
	if d.ExcessBlobGas != nil {
		binary.LittleEndian.PutUint64(m[16:24], *d.ExcessBlobGas)
		m[24] |= 2
	}
	w(m[:])
	if d.BaseFeePerGas != nil {
		w(d.BaseFeePerGas.Bytes())
	} else {
		w([]byte("no base fee"))
	}
	for _, wd := range d.Withdrawals {
		if wd != nil {
			var x [24]byte
			binary.LittleEndian.PutUint64(x[:8], wd.Index)
			binary.LittleEndian.PutUint64(x[8:16], wd.Validator)
			binary.LittleEndian.PutUint64(x[16:], wd.Amount)
			w(x[:])
			w(wd.Address[:])
		}
	}
	w(beacon[:])
	for _, r := range requests {
		w(r)
	}
	var out common.Hash
	copy(out[:], h.Sum(nil))
	return out
}

func (el *ELSim) requests(number uint64) [][]byte {
	if el.RawRequests != nil {
		return el.RawRequests
	}
	lk := el.NextLocking
	if !el.OmitGas {
		lk.Gas = []*goattypes.GasRequest{goattypes.NewGasRequest(number, el.GasAmount)}
	}
	var out [][]byte
	out = append(out, lk.Encode()...)
	out = append(out, el.NextBridge.Encode()...)
	out = append(out, el.NextRelayer.Encode()...)
	return out
}

func (api *engineAPI) GetChainConfig() *params.ChainConfig {
	return params.AllGoatDebugChainConfig
}

func (api *engineAPI) ForkchoiceUpdatedV3(update engine.ForkchoiceStateV1, attrs *engine.PayloadAttributes) (engine.ForkChoiceResponse, error) {
	el := api.el
	el.mu.Lock()
	if d := el.HiccupOnce; d > 0 && attrs != nil {
		// a fault-free engine that is merely slow once (machine load); see Node.Prepare
		el.HiccupOnce = 0
		el.mu.Unlock()
		time.Sleep(d)
		el.mu.Lock()
	}
	f := el.fault()
	call := Call{Method: "forkchoiceUpdatedV3", Head: update.HeadBlockHash, Safe: update.SafeBlockHash,
		Finalized: update.FinalizedBlockHash, HasAttrs: attrs != nil}
	parts := [][]byte{update.HeadBlockHash[:], update.SafeBlockHash[:], update.FinalizedBlockHash[:]}
	if attrs != nil {
		call.GoatTxs = attrs.GoatTxs
		parts = append(parts, attrs.SuggestedFeeRecipient[:])
		if attrs.BeaconRoot != nil {
			parts = append(parts, attrs.BeaconRoot[:])
		}
		parts = append(parts, attrs.GoatTxs...)
	}
	call.Digest = digest(parts...)
	finish := func(ans string) {
		call.Answer = ans
		el.Log = append(el.Log, call)
		el.mu.Unlock()
	}
	status := func(s string) engine.ForkChoiceResponse {
		return engine.ForkChoiceResponse{PayloadStatus: engine.PayloadStatusV1{Status: s}}
	}
	switch f {
	case FaultOutage:
		finish("outage")
		el.outage()
		return engine.ForkChoiceResponse{}, errors.New("elsim: connection lost")
	case FaultError:
		finish("error")
		return engine.ForkChoiceResponse{}, errors.New("elsim: injected error")
	case FaultInvalid:
		finish("INVALID")
		return status(engine.INVALID), nil
	case FaultSyncing:
		finish("SYNCING")
		return status(engine.SYNCING), nil
	case FaultAccepted:
		finish("ACCEPTED")
		return status(engine.ACCEPTED), nil
	case FaultStall:
		d := el.StallBy
		finish("stall")
		time.Sleep(d)
		return engine.ForkChoiceResponse{}, errors.New("elsim: stalled")
	}
	if _, ok := el.blocks[update.HeadBlockHash]; !ok {
		finish("SYNCING(unknown head)")
		return status(engine.SYNCING), nil
	}
	el.Head, el.Safe, el.Finalized = update.HeadBlockHash, update.SafeBlockHash, update.FinalizedBlockHash
	resp := status(engine.VALID)
	lvh := update.HeadBlockHash
	resp.PayloadStatus.LatestValidHash = &lvh
	if attrs != nil && f != FaultNoPayloadID {
		el.jobSeq++
		var id engine.PayloadID
		id[0] = byte(engine.PayloadV3)
		binary.BigEndian.PutUint32(id[4:], uint32(el.jobSeq))
		el.jobs[id] = &buildJob{parent: update.HeadBlockHash, attrs: *attrs}
		resp.PayloadID = &id
	}
	finish("VALID")
	return resp, nil
}

func (api *engineAPI) GetPayloadV4(id engine.PayloadID) (*engine.ExecutionPayloadEnvelope, error) {
	el := api.el
	el.mu.Lock()
	f := el.fault()
	call := Call{Method: "getPayloadV4", Digest: digest(id[:])}
	finish := func(ans string) {
		call.Answer = ans
		el.Log = append(el.Log, call)
		el.mu.Unlock()
	}
	switch f {
	case FaultOutage:
		finish("outage")
		el.outage()
		return nil, errors.New("elsim: connection lost")
	case FaultError, FaultInvalid, FaultSyncing, FaultAccepted, FaultNoPayloadID:
		finish("error")
		return nil, errors.New("elsim: injected error")
	case FaultStall:
		d := el.StallBy
		finish("stall")
		time.Sleep(d)
		return nil, errors.New("elsim: stalled")
	}
	job, ok := el.jobs[id]
	if !ok {
		finish("unknown payload")
		return nil, errors.New("Unknown payload")
	}
	parent := el.blocks[job.parent]
	d := engine.ExecutableData{
		ParentHash:    job.parent,
		FeeRecipient:  job.attrs.SuggestedFeeRecipient,
		LogsBloom:     make([]byte, 256),
		Random:        job.attrs.Random,
		Number:        parent.Data.Number + 1,
		GasLimit:      30_000_000,
		Timestamp:     job.attrs.Timestamp,
		BaseFeePerGas: big.NewInt(7),
		Withdrawals:   nil,
	}
	if el.Canonical {
		d.Timestamp = parent.Data.Timestamp + 1
		d.Random = common.BytesToHash(parent.Data.BlockHash[:])
	}
	d.Transactions = [][]byte{}
	d.Transactions = append(d.Transactions, job.attrs.GoatTxs...)
	d.Transactions = append(d.Transactions, el.UserTxs...)
	d.ExtraData = make([]byte, params.GoatHeaderExtraLengthV0)
	d.ExtraData[0] = byte(len(job.attrs.GoatTxs))
	// every field distinctive and non-zero where the chain allows it, so that a field lost between the
	// engine's answer, the stored payload and what the engine is shown later changes the block hash
	var zero uint64
	excess := 131072 * (d.Number%2 + 1)
	d.BlobGasUsed, d.ExcessBlobGas = &zero, &excess
	d.GasUsed = 21000*uint64(len(d.Transactions)) + 1
	d.LogsBloom[d.Number%256] = 0x80 | byte(d.Number)
	reqs := el.requests(d.Number)
	var beacon common.Hash
	if job.attrs.BeaconRoot != nil {
		beacon = *job.attrs.BeaconRoot
	}
	d.StateRoot = common.BytesToHash([]byte(fmt.Sprintf("state %d", d.Number)))
	d.ReceiptsRoot = common.BytesToHash([]byte(fmt.Sprintf("receipts %d", d.Number)))
	d.BlockHash = ComputeBlockHash(&d, beacon, reqs)
	finish(d.BlockHash.Hex())
	return &engine.ExecutionPayloadEnvelope{ExecutionPayload: &d, BlockValue: big.NewInt(0), Requests: reqs}, nil
}

func (api *engineAPI) NewPayloadV4(data engine.ExecutableData, hashes []common.Hash, beaconRoot *common.Hash, requests []hexutil.Bytes) (engine.PayloadStatusV1, error) {
	el := api.el
	el.mu.Lock()
	f := el.fault()
	reqs := make([][]byte, len(requests))
	for i := range requests {
		reqs[i] = requests[i]
	}
	var beacon common.Hash
	if beaconRoot != nil {
		beacon = *beaconRoot
	}
	call := Call{Method: "newPayloadV4", BlockHash: data.BlockHash,
		Digest: digest(data.BlockHash[:], data.ParentHash[:], beacon[:], digestBytes(data.Transactions), digestBytes(reqs))}
	finish := func(ans string) {
		call.Answer = ans
		el.Log = append(el.Log, call)
		el.mu.Unlock()
	}
	switch f {
	case FaultOutage:
		finish("outage")
		el.outage()
		return engine.PayloadStatusV1{}, errors.New("elsim: connection lost")
	case FaultError, FaultNoPayloadID:
		finish("error")
		return engine.PayloadStatusV1{}, errors.New("elsim: injected error")
	case FaultInvalid:
		finish("INVALID")
		return engine.PayloadStatusV1{Status: engine.INVALID}, nil
	case FaultSyncing:
		finish("SYNCING")
		return engine.PayloadStatusV1{Status: engine.SYNCING}, nil
	case FaultAccepted:
		finish("ACCEPTED")
		return engine.PayloadStatusV1{Status: engine.ACCEPTED}, nil
	case FaultStall:
		d := el.StallBy
		finish("stall")
		time.Sleep(d)
		return engine.PayloadStatusV1{}, errors.New("elsim: stalled")
	}
	// like goat-geth (ExecutableDataToBlock runs first): a payload whose claimed hash is not the
	// hash of its content is INVALID, also when a block with the claimed hash is already known
	if ComputeBlockHash(&data, beacon, reqs) != data.BlockHash {
		msg := "blockhash mismatch"
		finish("INVALID(" + msg + ")")
		return engine.PayloadStatusV1{Status: engine.INVALID, ValidationError: &msg}, nil
	}
	if _, ok := el.blocks[data.BlockHash]; ok {
		finish("VALID(known)")
		h := data.BlockHash
		return engine.PayloadStatusV1{Status: engine.VALID, LatestValidHash: &h}, nil
	}
	parent, ok := el.blocks[data.ParentHash]
	if !ok {
		finish("SYNCING(unknown parent)")
		return engine.PayloadStatusV1{Status: engine.SYNCING}, nil
	}
	invalid := func(msg string) (engine.PayloadStatusV1, error) {
		finish("INVALID(" + msg + ")")
		return engine.PayloadStatusV1{Status: engine.INVALID, ValidationError: &msg, LatestValidHash: &data.ParentHash}, nil
	}
	if data.Number != parent.Data.Number+1 {
		return invalid("bad number")
	}
	if data.Timestamp <= parent.Data.Timestamp && parent.Data.Number != 0 {
		return invalid("bad timestamp")
	}
	if len(data.ExtraData) != params.GoatHeaderExtraLengthV0 || int(data.ExtraData[0]) > len(data.Transactions) {
		return invalid("bad extra")
	}
	if ComputeBlockHash(&data, beacon, reqs) != data.BlockHash {
		return invalid("bad block hash")
	}
	el.blocks[data.BlockHash] = &elBlock{Data: data, Requests: reqs, Beacon: beacon}
	finish("VALID")
	h := data.BlockHash
	return engine.PayloadStatusV1{Status: engine.VALID, LatestValidHash: &h}, nil
}

func digestBytes(bs [][]byte) []byte {
	h := sha256.New()
	for _, b := range bs {
		var l [8]byte
		binary.LittleEndian.PutUint64(l[:], uint64(len(b)))
		h.Write(l[:])
		h.Write(b)
	}
	return h.Sum(nil)
}

var _ = context.Background

// Fork returns an independent fake execution layer with the same block tree and pointers.
func (el *ELSim) Fork() (*ELSim, error) {
	el.mu.Lock()
	defer el.mu.Unlock()
	var gen *engine.ExecutableData
	for _, b := range el.blocks {
		if b.Data.Number == 0 {
			d := b.Data
			gen = &d
		}
	}
	f, err := NewELSim(gen)
	if err != nil {
		return nil, err
	}
	for h, b := range el.blocks {
		c := *b
		f.blocks[h] = &c
	}
	f.Head, f.Safe, f.Finalized = el.Head, el.Safe, el.Finalized
	f.Canonical = el.Canonical
	f.GasAmount = new(big.Int).Set(el.GasAmount)
	f.jobSeq = el.jobSeq
	return f, nil
}

// BuildPayload builds a well-behaved payload on parent without going through the RPC
// interface (used by the harness to assemble proposals of other proposers and mutants).
func (el *ELSim) BuildPayload(parent common.Hash, feeRecipient common.Address, beacon common.Hash, goatTxs [][]byte, timestamp uint64) (*engine.ExecutableData, [][]byte, error) {
	el.mu.Lock()
	defer el.mu.Unlock()
	p, ok := el.blocks[parent]
	if !ok {
		return nil, nil, errors.New("unknown parent")
	}
	d := engine.ExecutableData{ParentHash: parent, FeeRecipient: feeRecipient, LogsBloom: make([]byte, 256), Number: p.Data.Number + 1,
		GasLimit: 30_000_000, Timestamp: timestamp, BaseFeePerGas: big.NewInt(7)}
	if el.Canonical || timestamp == 0 {
		d.Timestamp = p.Data.Timestamp + 1
	}
	d.Random = common.BytesToHash(p.Data.BlockHash[:])
	d.Transactions = [][]byte{}
	d.Transactions = append(d.Transactions, goatTxs...)
	d.Transactions = append(d.Transactions, el.UserTxs...)
	d.ExtraData = make([]byte, params.GoatHeaderExtraLengthV0)
	d.ExtraData[0] = byte(len(goatTxs))
	var zero uint64
	d.BlobGasUsed, d.ExcessBlobGas = &zero, &zero
	reqs := el.requests(d.Number)
	d.StateRoot = common.BytesToHash([]byte("state"))
	d.ReceiptsRoot = common.BytesToHash([]byte("receipts"))
	d.BlockHash = ComputeBlockHash(&d, beacon, reqs)
	return &d, reqs, nil
}

// ---- scratch directories of this process (abandoned instances and early exits leave some behind)

var tempMu sync.Mutex
var tempDirs []string

func noteTemp(dir string) {
	tempMu.Lock()
	tempDirs = append(tempDirs, dir)
	tempMu.Unlock()
}

// CleanupTemp removes every scratch directory this process created (called before exit).
func CleanupTemp() {
	tempMu.Lock()
	defer tempMu.Unlock()
	for _, d := range tempDirs {
		_ = os.RemoveAll(d)
	}
	tempDirs = nil
}
