package sim

import (
	"math/big"

	"github.com/ethereum/go-ethereum/beacon/engine"
	"github.com/ethereum/go-ethereum/common"
	ethtypes "github.com/ethereum/go-ethereum/core/types"
	goattypes "github.com/goatnetwork/goat/x/goat/types"
)

// EthBlockOpts controls the harness-assembled execution-block transaction.
type EthBlockOpts struct {
	Signer        *Key                                // default: the proposer's validator key
	Proposer      []byte                              // consensus proposer address named in the message (default node validator)
	MutatePayload func(p *goattypes.ExecutionPayload) // after building, before hashing? no: applied to the final payload
	Rehash        bool                                // recompute the block hash after mutation (a consistent but different block)
	TimeoutHeight *uint64
	SeqOffset     uint64
	Memo          string
	Payload       *goattypes.ExecutionPayload // carry exactly this payload (e.g. a stale one) instead of building a fresh one
	ForgeWith     *Key                        // the transaction names the signer's public key, but the signature bytes come from this key
}

// BuildEthBlockTx assembles MsgNewEthBlock for the next height the way an honest proposer
// does, from the committed state and the fake execution layer, without PrepareProposal.
func (n *Node) BuildEthBlockTx(o EthBlockOpts) ([]byte, *goattypes.ExecutionPayload, error) {
	ctx, _ := n.Ctx().CacheContext()
	k := n.App.GoatKeeper
	parent, err := k.Block.Get(ctx)
	if err != nil {
		return nil, nil, err
	}
	beacon, err := k.BeaconRoot.Get(ctx)
	if err != nil {
		return nil, nil, err
	}
	goatTxs, err := k.Dequeue(ctx)
	if err != nil {
		return nil, nil, err
	}
	prop := o.Proposer
	if prop == nil {
		prop = n.NodeAddr()
	}
	data, reqs, err := n.EL.BuildPayload(common.BytesToHash(parent.BlockHash), common.BytesToAddress(prop), common.BytesToHash(beacon), goatTxs, 0)
	if err != nil {
		return nil, nil, err
	}
	payload := goattypes.ExecutableDataToPayload(data, beacon, reqs)
	if o.Payload != nil {
		cp := *o.Payload
		payload = &cp
	}
	if o.MutatePayload != nil {
		o.MutatePayload(payload)
		if o.Rehash {
			// the harness's own field-by-field conversion, not the implementation's helper: a helper that
			// loses or swaps a field must not be able to make the forged hash agree with its own loss
			d := PayloadData(payload)
			payload.BlockHash = ComputeBlockHash(d, common.BytesToHash(payload.BeaconRoot), payload.Requests).Bytes()
		}
	}
	signer := n.Cfg.Vals[n.Cfg.NodeVal].Key
	if o.Signer != nil {
		signer = *o.Signer
	}
	propStr, err := n.App.AccountKeeper.AddressCodec().BytesToString(prop)
	if err != nil {
		return nil, nil, err
	}
	msg := &goattypes.MsgNewEthBlock{Proposer: propStr, Payload: payload}
	num, seq, ok := n.Account(n.Ctx(), signer.Addr())
	if !ok {
		num, seq = 0, 0
	}
	th := uint64(n.Height + 1)
	if o.TimeoutHeight != nil {
		th = *o.TimeoutHeight
	}
	if o.ForgeWith != nil {
		tx, err := SignTxAs(n.TxCfg, n.Cfg.ChainID, signer, *o.ForgeWith, num, seq+o.SeqOffset, th, o.Memo, msg)
		return tx, payload, err
	}
	tx, err := SignTx(n.TxCfg, n.Cfg.ChainID, signer, num, seq+o.SeqOffset, th, o.Memo, msg)
	return tx, payload, err
}

// PayloadData is the reference conversion of a consensus-layer payload into the engine's form.
func PayloadData(p *goattypes.ExecutionPayload) *engine.ExecutableData {
	used, excess := p.BlobGasUsed, p.ExcessBlobGas
	txs := make([][]byte, 0, len(p.Transactions))
	for _, t := range p.Transactions {
		txs = append(txs, append([]byte{}, t...))
	}
	var fee *big.Int
	if !p.BaseFeePerGas.IsNil() {
		fee = p.BaseFeePerGas.BigInt()
	}
	return &engine.ExecutableData{
		ParentHash: common.BytesToHash(p.ParentHash), FeeRecipient: common.BytesToAddress(p.FeeRecipient),
		StateRoot: common.BytesToHash(p.StateRoot), ReceiptsRoot: common.BytesToHash(p.ReceiptsRoot),
		LogsBloom: p.LogsBloom, Random: common.BytesToHash(p.PrevRandao), Number: p.BlockNumber,
		GasLimit: p.GasLimit, GasUsed: p.GasUsed, Timestamp: p.Timestamp, ExtraData: p.ExtraData,
		BaseFeePerGas: fee, BlockHash: common.BytesToHash(p.BlockHash), Transactions: txs,
		Withdrawals: []*ethtypes.Withdrawal{}, BlobGasUsed: &used, ExcessBlobGas: &excess,
	}
}
