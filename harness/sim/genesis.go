package sim

import (
	"encoding/json"
	"math/big"
	"time"

	"cosmossdk.io/math"
	cmtproto "github.com/cometbft/cometbft/proto/tendermint/types"
	cmttypes "github.com/cometbft/cometbft/types"
	"github.com/cosmos/cosmos-sdk/codec"
	sdk "github.com/cosmos/cosmos-sdk/types"
	authtypes "github.com/cosmos/cosmos-sdk/x/auth/types"
	"github.com/ethereum/go-ethereum/beacon/engine"
	"github.com/ethereum/go-ethereum/common"
	bitcointypes "github.com/goatnetwork/goat/x/bitcoin/types"
	goattypes "github.com/goatnetwork/goat/x/goat/types"
	lockingtypes "github.com/goatnetwork/goat/x/locking/types"
	relayertypes "github.com/goatnetwork/goat/x/relayer/types"
)

// Theta is the default token threshold / one unit of voting power (1e18).
var Theta = math.NewIntFromUint64(1e18)

type ValSpec struct {
	Key     Key
	Status  lockingtypes.ValidatorStatus
	Locking sdk.Coins
	Power   uint64
	// JailedUntil is set for validators that start in jail (status Downgrade)
	JailedUntil time.Time
}

// GenesisCfg is the small configuration record from which complete application
// states are produced. It is part of every replay artefact.
type GenesisCfg struct {
	ChainID string
	Time    time.Time

	Vals    []ValSpec
	NodeVal int // index into Vals of the validator whose key this node holds

	Proposer Member
	Voters   []Member
	// PendingVoters etc. are created through requests, not genesis
	RelayerParams relayertypes.Params
	Epoch         uint64
	Sequence      uint64
	Accepted      bool

	BtcParams bitcointypes.Params
	BtcKey    BtcKey
	BtcTip    uint64
	BtcHashes [][]byte // from tip downward
	ExtraKeys []BtcKey // additional registered relayer bitcoin keys

	LockingParams lockingtypes.Params
	Tokens        []*lockingtypes.TokenGenesis
	RewardPool    lockingtypes.RewardPool

	ExtraAccounts []Key

	Consensus *cmtproto.ConsensusParams
}

// DefaultCfg returns a one-validator, proposer+nVoters configuration with shrunk
// parameters so that every rule is reachable within a few blocks.
func DefaultCfg(nVals, nVoters int) *GenesisCfg {
	cfg := &GenesisCfg{
		ChainID: "goat-verif-1",
		Time:    time.Unix(1_700_000_000, 0).UTC(),
	}
	for i := 0; i < nVals; i++ {
		cfg.Vals = append(cfg.Vals, ValSpec{
			Key:     NewKey(string(rune('A'+i)) + "-val"),
			Status:  lockingtypes.Active,
			Locking: sdk.NewCoins(sdk.NewCoin("btc", Theta.MulRaw(2))),
			Power:   2,
		})
	}
	cfg.Proposer = NewMember("relayer-0")
	for i := 0; i < nVoters; i++ {
		cfg.Voters = append(cfg.Voters, NewMember("relayer-"+string(rune('1'+i))))
	}
	cfg.RelayerParams = relayertypes.Params{ElectingPeriod: 100 * time.Second, AcceptProposerTimeout: 30 * time.Second}
	cfg.Accepted = true
	cfg.BtcParams = bitcointypes.DefaultParams()
	cfg.BtcKey = NewBtcKey("btc-0", false)
	cfg.BtcTip = 100
	cfg.BtcHashes = [][]byte{common.BytesToHash([]byte("btc-genesis-tip")).Bytes()}
	cfg.LockingParams = lockingtypes.Params{
		UnlockDuration:          10 * time.Second,
		ExitingDuration:         30 * time.Second,
		DowntimeJailDuration:    60 * time.Second,
		MaxValidators:           3,
		SignedBlocksWindow:      3,
		MaxMissedPerWindow:      2,
		SlashFractionDoubleSign: math.LegacyNewDecWithPrec(5, 2),
		SlashFractionDowntime:   math.LegacyNewDecWithPrec(2, 2),
		HalvingInterval:         4,
		InitialBlockReward:      10,
	}
	cfg.Tokens = []*lockingtypes.TokenGenesis{
		{Denom: "btc", Token: lockingtypes.Token{Weight: 1, Threshold: Theta.MulRaw(2)}},
	}
	cfg.RewardPool = lockingtypes.RewardPool{Goat: math.ZeroInt(), Gas: math.ZeroInt(), Remain: math.ZeroInt()}
	cp := cmttypes.DefaultConsensusParams().ToProto()
	cp.Validator.PubKeyTypes = []string{cmttypes.ABCIPubKeyTypeSecp256k1}
	cp.Evidence.MaxAgeNumBlocks = 3
	cp.Evidence.MaxAgeDuration = 20 * time.Second
	cfg.Consensus = &cp
	return cfg
}

// GenesisEthBlock is the execution-layer genesis block shared by ELSim and goat.
func GenesisEthBlock() *engine.ExecutableData {
	var zero uint64
	d := &engine.ExecutableData{
		LogsBloom:     make([]byte, 256),
		GasLimit:      30_000_000,
		ExtraData:     make([]byte, 33),
		BaseFeePerGas: big.NewInt(7),
		Transactions:  [][]byte{},
		BlobGasUsed:   &zero,
		ExcessBlobGas: &zero,
		StateRoot:     common.BytesToHash([]byte("state")),
		ReceiptsRoot:  common.BytesToHash([]byte("receipts")),
	}
	d.BlockHash = ComputeBlockHash(d, common.Hash{}, nil)
	return d
}

// AppState builds the complete genesis app state.
func (cfg *GenesisCfg) AppState(cdc codec.Codec, defaults map[string]json.RawMessage) map[string]json.RawMessage {
	st := map[string]json.RawMessage{}
	for k, v := range defaults {
		st[k] = v
	}

	// auth: accounts with public keys for validators and relayer members
	var accs []authtypes.GenesisAccount
	seen := map[string]bool{}
	add := func(k Key) {
		if seen[k.AddrStr()] {
			return
		}
		seen[k.AddrStr()] = true
		acc := authtypes.NewBaseAccount(k.Addr(), k.Pub(), uint64(len(accs)), 0)
		accs = append(accs, acc)
	}
	for _, v := range cfg.Vals {
		add(v.Key)
	}
	add(cfg.Proposer.Key)
	for _, v := range cfg.Voters {
		add(v.Key)
	}
	for _, k := range cfg.ExtraAccounts {
		add(k)
	}
	authGen := authtypes.NewGenesisState(authtypes.DefaultParams(), accs)
	st[authtypes.ModuleName] = cdc.MustMarshalJSON(authGen)

	// relayer
	rel := relayertypes.GenesisState{
		Params:   cfg.RelayerParams,
		Relayer:  &relayertypes.Relayer{Epoch: cfg.Epoch, Proposer: cfg.Proposer.AddrStr(), LastElected: cfg.Time, ProposerAccepted: cfg.Accepted},
		Sequence: cfg.Sequence,
		Randao:   make([]byte, 32),
	}
	rel.Voters = append(rel.Voters, relayertypes.Voter{Address: cfg.Proposer.Addr(), VoteKey: cfg.Proposer.BLS.PK, Status: relayertypes.VOTER_STATUS_ACTIVATED})
	for _, v := range cfg.Voters {
		rel.Relayer.Voters = append(rel.Relayer.Voters, v.AddrStr())
		rel.Voters = append(rel.Voters, relayertypes.Voter{Address: v.Addr(), VoteKey: v.BLS.PK, Status: relayertypes.VOTER_STATUS_ACTIVATED})
	}
	rel.Pubkeys = append(rel.Pubkeys, cfg.BtcKey.Public())
	for _, k := range cfg.ExtraKeys {
		rel.Pubkeys = append(rel.Pubkeys, k.Public())
	}
	st[relayertypes.ModuleName] = cdc.MustMarshalJSON(&rel)

	// bitcoin
	btc := bitcointypes.GenesisState{
		Params:      cfg.BtcParams,
		BlockTip:    cfg.BtcTip,
		BlockHashes: cfg.BtcHashes,
		Pubkey:      cfg.BtcKey.Public(),
		EthTxQueue:  bitcointypes.EthTxQueue{BlockNumber: cfg.BtcTip},
	}
	st[bitcointypes.ModuleName] = cdc.MustMarshalJSON(&btc)

	// locking
	lk := lockingtypes.GenesisState{
		Params:     cfg.LockingParams,
		Tokens:     cfg.Tokens,
		Slashed:    sdk.NewCoins(),
		RewardPool: cfg.RewardPool,
	}
	for _, v := range cfg.Vals {
		lk.Validators = append(lk.Validators, lockingtypes.Validator{
			Pubkey: v.Key.Pub().Key, Power: v.Power, Locking: v.Locking,
			Reward: math.ZeroInt(), GasReward: math.ZeroInt(), Status: v.Status, JailedUntil: v.JailedUntil,
		})
	}
	st[lockingtypes.ModuleName] = cdc.MustMarshalJSON(&lk)

	// goat
	st[goattypes.ModuleName] = cdc.MustMarshalJSON(&goattypes.GenesisState{
		Params:     goattypes.DefaultParams(),
		EthBlock:   *goattypes.ExecutableDataToPayload(GenesisEthBlock(), make([]byte, 32), nil),
		BeaconRoot: make([]byte, 32),
	})
	return st
}
