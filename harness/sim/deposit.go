package sim

import (
	"crypto/sha256"

	"github.com/btcsuite/btcd/btcec/v2/schnorr"
	"github.com/btcsuite/btcd/btcutil"
	"github.com/btcsuite/btcd/txscript"
)

// Reference construction of deposit outputs, written from the protocol description
// (not from goat's builders): v0 = P2WSH(<evm> OP_DROP <pubkey> OP_CHECKSIG) for ECDSA
// keys or P2TR(tweak(pubkey, evm)) for Schnorr keys; v1 = P2WPKH(pubkey) followed by
// OP_RETURN <magic || evm>.

func RefDepositScriptV0(k BtcKey, evm []byte) []byte {
	if k.Schnorr {
		out := txscript.ComputeTaprootOutputKey(k.Priv.PubKey(), evm)
		return append([]byte{txscript.OP_1, txscript.OP_DATA_32}, schnorr.SerializePubKey(out)...)
	}
	pk := k.Priv.PubKey().SerializeCompressed()
	script := []byte{byte(len(evm))}
	script = append(script, evm...)
	script = append(script, txscript.OP_DROP, byte(len(pk)))
	script = append(script, pk...)
	script = append(script, txscript.OP_CHECKSIG)
	h := sha256.Sum256(script)
	return append([]byte{txscript.OP_0, txscript.OP_DATA_32}, h[:]...)
}

func RefDepositScriptsV1(k BtcKey, magic, evm []byte) ([]byte, []byte) {
	pk := k.Priv.PubKey().SerializeCompressed()
	out0 := append([]byte{txscript.OP_0, txscript.OP_DATA_20}, btcutil.Hash160(pk)...)
	data := append(append([]byte{}, magic...), evm...)
	out1 := append([]byte{txscript.OP_RETURN, byte(len(data))}, data...)
	return out0, out1
}

// RefSystemScript is the script paying the relayer key itself (change / consolidation).
func RefSystemScript(k BtcKey) []byte {
	if k.Schnorr {
		out := txscript.ComputeTaprootKeyNoScript(k.Priv.PubKey())
		return append([]byte{txscript.OP_1, txscript.OP_DATA_32}, schnorr.SerializePubKey(out)...)
	}
	return P2WPKHScript(k)
}
