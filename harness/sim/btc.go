package sim

import (
	"bytes"
	"crypto/sha256"
	"encoding/binary"

	"github.com/btcsuite/btcd/btcutil"
	"github.com/btcsuite/btcd/chaincfg/chainhash"
	"github.com/btcsuite/btcd/wire"
)

// Reference Bitcoin world: own double-SHA Merkle builder (with Bitcoin's odd-level
// duplication), 80-byte headers, simple transactions. Written from the Bitcoin rules,
// independent of goat's code.

func DSHA(b []byte) []byte {
	a := sha256.Sum256(b)
	c := sha256.Sum256(a[:])
	return c[:]
}

// MerkleTree returns all levels of the Bitcoin merkle tree over the leaves (level 0 = leaves).
func MerkleTree(leaves [][]byte) [][][]byte {
	levels := [][][]byte{leaves}
	cur := leaves
	for len(cur) > 1 {
		var next [][]byte
		for i := 0; i < len(cur); i += 2 {
			l := cur[i]
			r := l
			if i+1 < len(cur) {
				r = cur[i+1]
			}
			next = append(next, DSHA(append(append([]byte{}, l...), r...)))
		}
		levels = append(levels, next)
		cur = next
	}
	return levels
}

func MerkleRoot(leaves [][]byte) []byte {
	lv := MerkleTree(leaves)
	return lv[len(lv)-1][0]
}

// MerkleProof returns the sibling path of leaf idx.
func MerkleProof(leaves [][]byte, idx int) []byte {
	lv := MerkleTree(leaves)
	var proof []byte
	for d := 0; d < len(lv)-1; d++ {
		sib := idx ^ 1
		if sib >= len(lv[d]) {
			sib = idx
		}
		proof = append(proof, lv[d][sib]...)
		idx >>= 1
	}
	return proof
}

// RefVerifyMerkle is the reference definition of inclusion: well-formed sizes, position
// < 2^len(path), and folding by the position bits reproduces the root.
func RefVerifyMerkle(leaf, root, proof []byte, index uint32) bool {
	if len(leaf) != 32 || len(root) != 32 || len(proof)%32 != 0 {
		return false
	}
	n := len(proof) / 32
	if n < 32 && uint64(index) >= uint64(1)<<uint(n) {
		return false
	}
	cur := append([]byte{}, leaf...)
	for i := 0; i < n; i++ {
		sib := proof[i*32 : i*32+32]
		if (index>>uint(i))&1 == 0 {
			cur = DSHA(append(append([]byte{}, cur...), sib...))
		} else {
			cur = DSHA(append(append([]byte{}, sib...), cur...))
		}
	}
	return bytes.Equal(cur, root)
}

// BtcBlock is a reference Bitcoin block.
type BtcBlock struct {
	Height uint64
	Txs    [][]byte // serialized without witness
	Header []byte   // 80 bytes
}

func (b *BtcBlock) Txids() [][]byte {
	var ids [][]byte
	for _, t := range b.Txs {
		ids = append(ids, DSHA(t))
	}
	return ids
}

func (b *BtcBlock) Hash() []byte { return DSHA(b.Header) }

func (b *BtcBlock) Proof(i int) []byte { return MerkleProof(b.Txids(), i) }

// NewBtcBlock assembles a block: header = version|prev|merkle|time|bits|nonce.
func NewBtcBlock(height uint64, prev []byte, txs [][]byte) *BtcBlock {
	b := &BtcBlock{Height: height, Txs: txs}
	hdr := make([]byte, 80)
	binary.LittleEndian.PutUint32(hdr[0:4], 0x20000000)
	copy(hdr[4:36], prev)
	copy(hdr[36:68], MerkleRoot(b.Txids()))
	binary.LittleEndian.PutUint32(hdr[68:72], uint32(1_700_000_000+height))
	binary.LittleEndian.PutUint32(hdr[72:76], 0x207fffff)
	binary.LittleEndian.PutUint32(hdr[76:80], uint32(height))
	b.Header = hdr
	return b
}

// BtcOut is one transaction output.
type BtcOut struct {
	Value  int64
	Script []byte
}

// BtcTx builds a serialized non-witness transaction with one input distinguished by tag.
func BtcTx(tag uint32, outs ...BtcOut) []byte {
	tx := wire.NewMsgTx(2)
	var prev chainhash.Hash
	binary.LittleEndian.PutUint32(prev[:4], tag)
	prev[31] = 0x77
	tx.AddTxIn(wire.NewTxIn(wire.NewOutPoint(&prev, 0), nil, nil))
	for _, o := range outs {
		tx.AddTxOut(wire.NewTxOut(o.Value, o.Script))
	}
	var buf bytes.Buffer
	if err := tx.SerializeNoWitness(&buf); err != nil {
		panic(err)
	}
	return buf.Bytes()
}

// CoinbaseTx builds a coinbase-shaped transaction (null prevout).
func CoinbaseTx(height uint32, outs ...BtcOut) []byte {
	tx := wire.NewMsgTx(2)
	var prev chainhash.Hash
	in := wire.NewTxIn(wire.NewOutPoint(&prev, 0xffffffff), []byte{3, byte(height), byte(height >> 8), byte(height >> 16)}, nil)
	tx.AddTxIn(in)
	for _, o := range outs {
		tx.AddTxOut(wire.NewTxOut(o.Value, o.Script))
	}
	var buf bytes.Buffer
	if err := tx.SerializeNoWitness(&buf); err != nil {
		panic(err)
	}
	return buf.Bytes()
}

// P2WPKHScript is the pay-to-witness-pubkey-hash script of a secp256k1 relayer key.
func P2WPKHScript(k BtcKey) []byte {
	h := btcutilHash160(k.Priv.PubKey().SerializeCompressed())
	return append([]byte{0x00, 0x14}, h...)
}

func btcutilHash160(b []byte) []byte { return btcutil.Hash160(b) }

// SHA256 is a plain SHA-256.
func SHA256(b []byte) []byte {
	h := sha256.Sum256(b)
	return h[:]
}
