package sim

import (
	"context"
	"fmt"

	abci "github.com/cometbft/cometbft/abci/types"
	"github.com/cosmos/cosmos-sdk/client"
	clienttx "github.com/cosmos/cosmos-sdk/client/tx"
	sdk "github.com/cosmos/cosmos-sdk/types"
	"github.com/cosmos/cosmos-sdk/types/tx/signing"
	xauthsigning "github.com/cosmos/cosmos-sdk/x/auth/signing"
	goatcrypto "github.com/goatnetwork/goat/pkg/crypto"
	relayertypes "github.com/goatnetwork/goat/x/relayer/types"
)

// Bitmap encodes marked positions LSB-first into length bytes.
func Bitmap(positions []int, length int) []byte {
	b := make([]byte, length)
	for _, p := range positions {
		if p/8 < length {
			b[p/8] |= 1 << uint(p%8)
		}
	}
	return b
}

// MinBitmapLen is the smallest multiple of 8 bytes that can hold the positions (>= 8).
func MinBitmapLen(positions []int) int {
	l := 8
	for _, p := range positions {
		for p/8 >= l {
			l += 8
		}
	}
	return l
}

// VoteCtx is the signing context of a vote.
type VoteCtx struct {
	Method   string
	ChainID  string
	Proposer string
	Sequence uint64
	Epoch    uint64
	Payload  []byte
}

func (v VoteCtx) SigDoc() []byte {
	return relayertypes.VoteSignDoc(v.Method, v.ChainID, v.Proposer, v.Sequence, v.Epoch, v.Payload)
}

// AggregateVote signs the context with every given member and aggregates.
func AggregateVote(signers []Member, v VoteCtx) []byte {
	doc := v.SigDoc()
	var sigs [][]byte
	for _, m := range signers {
		sigs = append(sigs, m.BLS.Sign(doc))
	}
	if len(sigs) == 0 {
		// a well-formed signature by an outsider over the document
		return NewBLSKey("outsider").Sign(doc)
	}
	agg, err := goatcrypto.AggregateSignatures(sigs)
	if err != nil {
		panic(err)
	}
	return agg
}

// SignTx builds and signs a transaction with one signer.
func SignTx(txCfg client.TxConfig, chainID string, key Key, accNum, seq uint64, timeoutHeight uint64, memo string, msgs ...sdk.Msg) ([]byte, error) {
	return SignTxAs(txCfg, chainID, key, key, accNum, seq, timeoutHeight, memo, msgs...)
}

// SignTxAs builds a transaction that claims to be signed by key but is signed with signWith.
func SignTxAs(txCfg client.TxConfig, chainID string, key, signWith Key, accNum, seq uint64, timeoutHeight uint64, memo string, msgs ...sdk.Msg) ([]byte, error) {
	b := txCfg.NewTxBuilder()
	if err := b.SetMsgs(msgs...); err != nil {
		return nil, err
	}
	b.SetGasLimit(1e8)
	b.SetTimeoutHeight(timeoutHeight)
	b.SetMemo(memo)
	mode := signing.SignMode_SIGN_MODE_DIRECT
	if err := b.SetSignatures(signing.SignatureV2{PubKey: key.Pub(), Data: &signing.SingleSignatureData{SignMode: mode}, Sequence: seq}); err != nil {
		return nil, err
	}
	sig, err := clienttx.SignWithPrivKey(context.Background(), mode, xauthsigning.SignerData{
		Address: key.AddrStr(), ChainID: chainID, AccountNumber: accNum, Sequence: seq, PubKey: key.Pub(),
	}, b, signWith.Priv, txCfg, seq)
	if err != nil {
		return nil, err
	}
	// the transaction names key's public key; only the signature bytes come from signWith, so that
	// nothing but the cryptographic check can refuse a forgery
	sig.PubKey = key.Pub()
	if err := b.SetSignatures(sig); err != nil {
		return nil, err
	}
	return txCfg.TxEncoder()(b.GetTx())
}

// SignTxMulti builds a transaction with several signers (message signers in order of first
// appearance, then the fee payer if it is not one of them), each signing in direct mode.
func SignTxMulti(txCfg client.TxConfig, chainID string, keys []Key, nums, seqs []uint64, feePayer sdk.AccAddress, timeoutHeight uint64, memo string, msgs ...sdk.Msg) ([]byte, error) {
	b := txCfg.NewTxBuilder()
	if err := b.SetMsgs(msgs...); err != nil {
		return nil, err
	}
	b.SetGasLimit(1e8)
	b.SetTimeoutHeight(timeoutHeight)
	b.SetMemo(memo)
	if feePayer != nil {
		b.SetFeePayer(feePayer)
	}
	mode := signing.SignMode_SIGN_MODE_DIRECT
	sigs := make([]signing.SignatureV2, len(keys))
	for i, k := range keys {
		sigs[i] = signing.SignatureV2{PubKey: k.Pub(), Data: &signing.SingleSignatureData{SignMode: mode}, Sequence: seqs[i]}
	}
	if err := b.SetSignatures(sigs...); err != nil {
		return nil, err
	}
	for i, k := range keys {
		sig, err := clienttx.SignWithPrivKey(context.Background(), mode, xauthsigning.SignerData{
			Address: k.AddrStr(), ChainID: chainID, AccountNumber: nums[i], Sequence: seqs[i], PubKey: k.Pub(),
		}, b, k.Priv, txCfg, seqs[i])
		if err != nil {
			return nil, err
		}
		sigs[i] = sig
	}
	if err := b.SetSignatures(sigs...); err != nil {
		return nil, err
	}
	return txCfg.TxEncoder()(b.GetTx())
}

// Account returns (account number, sequence) of an address in ctx.
func (n *Node) Account(ctx sdk.Context, addr sdk.AccAddress) (uint64, uint64, bool) {
	acc := n.App.AccountKeeper.GetAccount(ctx, addr)
	if acc == nil {
		return 0, 0, false
	}
	return acc.GetAccountNumber(), acc.GetSequence(), true
}

// SignFor signs msgs with key using its current account number/sequence (+seqOffset).
func (n *Node) SignFor(key Key, seqOffset uint64, timeoutHeight uint64, msgs ...sdk.Msg) []byte {
	num, seq, ok := n.Account(n.Ctx(), key.Addr())
	if !ok {
		panic(fmt.Sprintf("no account for %s", key.Name))
	}
	tx, err := SignTx(n.TxCfg, n.Cfg.ChainID, key, num, seq+seqOffset, timeoutHeight, "", msgs...)
	if err != nil {
		panic(err)
	}
	return tx
}

// Deliver runs a message through the application's MsgServiceRouter on ctx.
func (n *Node) Deliver(ctx sdk.Context, msg sdk.Msg) (res *sdk.Result, err error, panicked any) {
	h := n.App.MsgServiceRouter().Handler(msg)
	if h == nil {
		return nil, fmt.Errorf("no handler for %T", msg), nil
	}
	defer func() {
		if p := recover(); p != nil {
			panicked = p
			err = fmt.Errorf("panic: %v", p)
		}
	}()
	res, err = h(ctx, msg)
	return
}

var _ = abci.CodeTypeOK
