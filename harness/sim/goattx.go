package sim

import (
	"fmt"

	ethtypes "github.com/ethereum/go-ethereum/core/types"
	"github.com/ethereum/go-ethereum/core/types/goattypes"
	"github.com/ethereum/go-ethereum/rlp"
)

// SysTx is a decoded consensus->execution system transaction.
type SysTx struct {
	Module goattypes.Module
	Action goattypes.Action
	Nonce  uint64
	Inner  goattypes.Tx
	Raw    []byte
}

// DecodeSysTx decodes the binary form of a goat system transaction.
func DecodeSysTx(raw []byte) (*SysTx, error) {
	if len(raw) < 2 || raw[0] != ethtypes.GoatTxType {
		return nil, fmt.Errorf("not a goat tx")
	}
	var body struct {
		Module goattypes.Module
		Action goattypes.Action
		Nonce  uint64
		Data   []byte
	}
	if err := rlp.DecodeBytes(raw[1:], &body); err != nil {
		return nil, err
	}
	inner, err := goattypes.DecodeTx(body.Module, body.Action, body.Data)
	if err != nil {
		return nil, err
	}
	return &SysTx{Module: body.Module, Action: body.Action, Nonce: body.Nonce, Inner: inner, Raw: raw}, nil
}

// DecodeSysTxs decodes a list of ethereum transactions produced by the Dequeue functions.
func DecodeSysTxs(txs []*ethtypes.Transaction) []*SysTx {
	var out []*SysTx
	for _, tx := range txs {
		raw, err := tx.MarshalBinary()
		if err != nil {
			panic(err)
		}
		st, err := DecodeSysTx(raw)
		if err != nil {
			panic(err)
		}
		out = append(out, st)
	}
	return out
}
