package sim

import (
	"bytes"
	"errors"
	"fmt"
	"sort"
	"strings"

	abci "github.com/cometbft/cometbft/abci/types"
	cmttypes "github.com/cometbft/cometbft/types"
)

// RefVal is one member of the reference validator set.
type RefVal struct {
	Address []byte
	Power   int64
}

// RefValSet is CometSim's reference validator set: a real CometBFT ValidatorSet to
// which every ValidatorUpdates answer is applied with CometBFT's own
// UpdateWithChangeSet, with CometBFT's H+2 activation lag.
type RefValSet struct {
	sets map[int64]*cmttypes.ValidatorSet
	last int64 // highest height whose set is known
}

// ErrEmptySet is returned when an update would empty the validator set (the environment's
// liveness assumption, not part of the checked properties).
var ErrEmptySet = errors.New("validator set would become empty")

func NewRefValSet(initial []abci.ValidatorUpdate) (*RefValSet, error) {
	vals, err := cmttypes.PB2TM.ValidatorUpdates(initial)
	if err != nil {
		return nil, err
	}
	for _, v := range vals {
		if v.VotingPower <= 0 {
			return nil, fmt.Errorf("genesis validator %X with non-positive power %d", v.Address, v.VotingPower)
		}
	}
	if len(vals) == 0 {
		return nil, ErrEmptySet
	}
	vs := cmttypes.NewValidatorSet(vals)
	r := &RefValSet{sets: map[int64]*cmttypes.ValidatorSet{1: vs, 2: vs.Copy()}, last: 2}
	return r, nil
}

// Apply applies the updates returned by FinalizeBlock(h); they take effect at h+2.
func (r *RefValSet) Apply(h int64, updates []abci.ValidatorUpdate) error {
	base, ok := r.sets[h+1]
	if !ok {
		return fmt.Errorf("refvalset: no set for height %d", h+1)
	}
	next := base.Copy()
	if len(updates) > 0 {
		vals, err := cmttypes.PB2TM.ValidatorUpdates(updates)
		if err != nil {
			return err
		}
		if err := next.UpdateWithChangeSet(vals); err != nil {
			if strings.Contains(err.Error(), "empty set") {
				return ErrEmptySet
			}
			return err
		}
	}
	r.sets[h+2] = next
	if h+2 > r.last {
		r.last = h + 2
	}
	delete(r.sets, h-3)
	return nil
}

// Check reports whether the updates would be accepted, without applying.
func (r *RefValSet) Check(h int64, updates []abci.ValidatorUpdate) error {
	base, ok := r.sets[h+1]
	if !ok {
		return fmt.Errorf("refvalset: no set for height %d", h+1)
	}
	if len(updates) == 0 {
		return nil
	}
	vals, err := cmttypes.PB2TM.ValidatorUpdates(updates)
	if err != nil {
		return err
	}
	err = base.Copy().UpdateWithChangeSet(vals)
	if err != nil && strings.Contains(err.Error(), "empty set") {
		return ErrEmptySet
	}
	return err
}

// At returns the validators of height h sorted by address.
func (r *RefValSet) At(h int64) []RefVal {
	vs, ok := r.sets[h]
	if !ok {
		return nil
	}
	out := make([]RefVal, 0, len(vs.Validators))
	for _, v := range vs.Validators {
		out = append(out, RefVal{Address: bytes.Clone(v.Address), Power: v.VotingPower})
	}
	sort.Slice(out, func(i, j int) bool { return bytes.Compare(out[i].Address, out[j].Address) < 0 })
	return out
}

// Latest returns the newest known set (the one that accumulates all updates so far).
func (r *RefValSet) Latest() []RefVal { return r.At(r.last) }

// Clone deep-copies the reference set (for branching searches).
func (r *RefValSet) Clone() *RefValSet {
	c := &RefValSet{sets: map[int64]*cmttypes.ValidatorSet{}, last: r.last}
	for h, s := range r.sets {
		c.sets[h] = s.Copy()
	}
	return c
}

// Key is a canonical string of the lagged sets relative to height h (for state hashing).
func (r *RefValSet) Key(h int64) string {
	var sb strings.Builder
	for d := int64(0); d <= 2; d++ {
		for _, v := range r.At(h + d) {
			fmt.Fprintf(&sb, "%x:%d,", v.Address, v.Power)
		}
		sb.WriteString("|")
	}
	return sb.String()
}

// ShiftTo re-bases a freshly created reference set (heights 1 and 2) to a chain whose
// initial height is h.
func (r *RefValSet) ShiftTo(h int64) *RefValSet {
	return &RefValSet{sets: map[int64]*cmttypes.ValidatorSet{h: r.sets[1].Copy(), h + 1: r.sets[2].Copy()}, last: h + 1}
}

// CmtAddr is the consensus address of a validator update's public key.
func CmtAddr(u abci.ValidatorUpdate) []byte {
	vals, err := cmttypes.PB2TM.ValidatorUpdates([]abci.ValidatorUpdate{u})
	if err != nil {
		panic(err)
	}
	return vals[0].Address
}
