package sim

import (
	"bytes"
	"context"
	"crypto/sha256"
	"encoding/binary"
	"encoding/json"
	"fmt"
	"os"
	"path/filepath"
	"sort"
	"strings"
	"sync/atomic"
	"time"

	storetypes "cosmossdk.io/store/types"
	abci "github.com/cometbft/cometbft/abci/types"
	cmtsecp "github.com/cometbft/cometbft/crypto/secp256k1"
	cmtjson "github.com/cometbft/cometbft/libs/json"
	"github.com/cometbft/cometbft/privval"
	cmtproto "github.com/cometbft/cometbft/proto/tendermint/types"
	dbm "github.com/cosmos/cosmos-db"
	"github.com/cosmos/cosmos-sdk/client"
	"github.com/cosmos/cosmos-sdk/codec"
	"github.com/cosmos/cosmos-sdk/server"
	sdk "github.com/cosmos/cosmos-sdk/types"
	authtx "github.com/cosmos/cosmos-sdk/x/auth/tx"
	"github.com/goatnetwork/goat/app"
)

type mapOpts map[string]interface{}

func (m mapOpts) Get(k string) interface{} { return m[k] }

// Node is one replica: the real application on an in-memory database, wired to an ELSim.
type Node struct {
	App   *app.App
	DB    dbm.DB
	EL    *ELSim
	Cfg   *GenesisCfg
	Home  string
	TxCfg client.TxConfig
	errs  *errLog

	// CometSim state
	Height        int64     // last committed height
	Time          time.Time // time of last committed block
	LastHash      []byte    // fake hash of last committed block
	ValSet        *RefValSet
	Responses     []*abci.ResponseFinalizeBlock
	InitialHeight int64 // first height of this chain (1 unless started from an export)
}

var nodeSeq int

// NewNode builds the application over db (fresh or previously committed).
func NewNode(cfg *GenesisCfg, el *ELSim, db dbm.DB) (*Node, error) {
	home, err := os.MkdirTemp("", "goatnode")
	if err != nil {
		return nil, err
	}
	noteTemp(home)
	key := cfg.Vals[cfg.NodeVal].Key
	pv := privval.FilePVKey{
		Address: cmtsecp.PubKey(key.Pub().Key).Address(),
		PubKey:  cmtsecp.PubKey(key.Pub().Key),
		PrivKey: cmtsecp.PrivKey(key.Priv.Key),
	}
	bz, err := cmtjson.Marshal(pv)
	if err != nil {
		return nil, err
	}
	pvPath := filepath.Join(home, "priv_validator_key.json")
	if err := os.WriteFile(pvPath, bz, 0o600); err != nil {
		return nil, err
	}
	opts := mapOpts{
		"goat.geth":               el.Path,
		"priv_validator_key_file": pvPath,
		"home":                    home,
		"pruning":                 "nothing",
		"chain-id":                cfg.ChainID,
		"mempool.max-txs":         0,
		"app-db-backend":          "memdb",
	}
	for k, v := range LocalOpts {
		opts[k] = v
	}
	lg := newErrLog()
	a, err := app.New(lg, db, nil, true, opts, server.DefaultBaseappOptions(opts)...)
	if err != nil {
		return nil, err
	}
	n := &Node{App: a, DB: db, EL: el, Cfg: cfg, Home: home, errs: lg}
	n.TxCfg = authtx.NewTxConfig(codec.NewProtoCodec(a.AppCodec().InterfaceRegistry()), authtx.DefaultSignModes)
	return n, nil
}

// LocalOpts are node-local settings (what an operator writes into app.toml or passes as flags)
// laid over the harness's defaults for every application instance this process creates. They are
// no part of the replicated state machine: a replica started with other values must compute the
// same results.
var LocalOpts = map[string]any{}

// LoggedErrors returns (and forgets) the application's most recent error log records.
func (n *Node) LoggedErrors() string {
	if n.errs == nil {
		return ""
	}
	return n.errs.take()
}

func (n *Node) Close() {
	if n.App != nil {
		_ = n.App.Close()
	}
	os.RemoveAll(n.Home)
}

// NewChain creates an ELSim, a MemDB, a node and runs InitChain.
func NewChain(cfg *GenesisCfg) (*Node, error) {
	el, err := NewELSim(GenesisEthBlock())
	if err != nil {
		return nil, err
	}
	n, err := NewNode(cfg, el, dbm.NewMemDB())
	if err != nil {
		el.Close()
		return nil, err
	}
	if err := n.InitChain(nil); err != nil {
		n.Close()
		el.Close()
		return nil, err
	}
	return n, nil
}

// InitChain runs InitChain with the configuration's app state (or the given one).
func (n *Node) InitChain(appState []byte) error {
	if appState == nil {
		st := n.Cfg.AppState(n.App.AppCodec(), n.App.DefaultGenesis())
		bz, err := json.Marshal(st)
		if err != nil {
			return err
		}
		appState = bz
	}
	resp, err := n.App.InitChain(&abci.RequestInitChain{
		Time:            n.Cfg.Time,
		ChainId:         n.Cfg.ChainID,
		ConsensusParams: n.Cfg.Consensus,
		AppStateBytes:   appState,
		InitialHeight:   1,
	})
	if err != nil {
		return err
	}
	n.Height = 0
	n.Time = n.Cfg.Time
	n.LastHash = make([]byte, 32)
	n.ValSet, err = NewRefValSet(resp.Validators)
	return err
}

// Restart throws the App away and builds a new one on the same database.
func (n *Node) Restart() error {
	_ = n.App.Close()
	a, err := NewNode(n.Cfg, n.EL, n.DB)
	if err != nil {
		return err
	}
	os.RemoveAll(n.Home)
	n.App, n.Home, n.TxCfg, n.errs = a.App, a.Home, a.TxCfg, a.errs
	return nil
}

// Block describes the consensus inputs of one block.
type Block struct {
	TimeDelta   time.Duration
	Proposer    []byte          // consensus address; nil = node's own validator
	Absent      map[string]bool // string(addr) of validators of the previous height that did not sign
	Misbehavior []abci.Misbehavior
	Txs         [][]byte // if nil, PrepareProposal builds them
	MempoolTxs  [][]byte // what CometBFT's mempool would hand to PrepareProposal
}

func FakeBlockHash(height int64, txs [][]byte) []byte {
	h := sha256.New()
	var b [8]byte
	binary.LittleEndian.PutUint64(b[:], uint64(height))
	h.Write(b[:])
	for _, t := range txs {
		h.Write(t)
	}
	return h.Sum(nil)
}

func (n *Node) NodeAddr() []byte { return n.Cfg.Vals[n.Cfg.NodeVal].Key.Addr() }

// LastCommit builds the DecidedLastCommit for the block at height h (votes for h-1).
func (n *Node) LastCommit(h int64, absent map[string]bool) abci.CommitInfo {
	ci := abci.CommitInfo{}
	if h < 2 || h <= n.InitialHeight {
		return ci // the first block of a chain carries no last commit
	}
	for _, v := range n.ValSet.At(h - 1) {
		flag := cmtproto.BlockIDFlagCommit
		if absent[string(v.Address)] {
			flag = cmtproto.BlockIDFlagAbsent
		}
		ci.Votes = append(ci.Votes, abci.VoteInfo{
			Validator:   abci.Validator{Address: v.Address, Power: v.Power},
			BlockIdFlag: flag,
		})
	}
	return ci
}

// Prepare runs the real PrepareProposal for the next height.
func (n *Node) Prepare(b *Block) (*abci.ResponsePrepareProposal, error) {
	h := n.Height + 1
	prop := b.Proposer
	if prop == nil {
		prop = n.NodeAddr()
	}
	req := &abci.RequestPrepareProposal{
		Height: h, Time: n.Time.Add(b.TimeDelta), ProposerAddress: prop,
		MaxTxBytes: 4 << 20, LocalLastCommit: abci.ExtendedCommitInfo{}, Txs: b.MempoolTxs,
		Misbehavior: b.Misbehavior,
	}
	// PrepareProposalHandler gives the engine 1.2 s of wall-clock time. On a saturated machine a
	// fault-free fake engine can miss that; the proposer then proposes nothing valid and
	// consensus moves to another round. The harness plays that next round itself (only when no
	// engine fault is scripted), so that machine load never decides a verdict.
	for try := 0; ; try++ {
		if n.errs != nil {
			n.errs.take()
		}
		pp, err := n.App.PrepareProposal(req)
		if err != nil || n.errs == nil || try >= 3 || n.EL.HasFaults() || !strings.Contains(n.errs.peek(), "context deadline exceeded") {
			return pp, err
		}
		DeadlineRetries.Add(1)
	}
}

// DeadlineRetries counts proposal rounds repeated because the wall-clock deadline of
// PrepareProposalHandler expired without a scripted fault.
var DeadlineRetries atomic.Int64

// Process runs ProcessProposal for the next height.
func (n *Node) Process(b *Block, txs [][]byte) (*abci.ResponseProcessProposal, error) {
	h := n.Height + 1
	prop := b.Proposer
	if prop == nil {
		prop = n.NodeAddr()
	}
	return n.App.ProcessProposal(&abci.RequestProcessProposal{
		Height: h, Time: n.Time.Add(b.TimeDelta), ProposerAddress: prop, Txs: txs,
		Hash: FakeBlockHash(h, txs), ProposedLastCommit: n.LastCommit(h, b.Absent), Misbehavior: b.Misbehavior,
	})
}

// Finalize runs FinalizeBlock for the next height (no commit).
func (n *Node) Finalize(b *Block, txs [][]byte) (*abci.ResponseFinalizeBlock, error) {
	h := n.Height + 1
	prop := b.Proposer
	if prop == nil {
		prop = n.NodeAddr()
	}
	return n.App.FinalizeBlock(&abci.RequestFinalizeBlock{
		Height: h, Time: n.Time.Add(b.TimeDelta), ProposerAddress: prop, Txs: txs,
		Hash: FakeBlockHash(h, txs), DecidedLastCommit: n.LastCommit(h, b.Absent), Misbehavior: b.Misbehavior,
	})
}

// Commit commits and advances CometSim.
func (n *Node) Commit(b *Block, txs [][]byte, resp *abci.ResponseFinalizeBlock) error {
	if _, err := n.App.Commit(); err != nil {
		return err
	}
	n.Height++
	n.Time = n.Time.Add(b.TimeDelta)
	n.LastHash = FakeBlockHash(n.Height, txs)
	if resp != nil {
		if err := n.ValSet.Apply(n.Height, resp.ValidatorUpdates); err != nil {
			return fmt.Errorf("validator updates rejected by CometBFT at height %d: %w", n.Height, err)
		}
	}
	return nil
}

// BlockResult is everything observable about one executed block.
type BlockResult struct {
	Txs      [][]byte
	Prepare  *abci.ResponsePrepareProposal
	Process  *abci.ResponseProcessProposal
	Finalize *abci.ResponseFinalizeBlock
	Calls    []Call
	Err      error
	Stage    string
}

// RunBlock executes prepare (if b.Txs == nil) -> process -> finalize -> commit.
func (n *Node) RunBlock(b *Block) *BlockResult {
	r := &BlockResult{}
	if b.TimeDelta == 0 {
		b.TimeDelta = time.Second
	}
	n.EL.ResetCalls()
	txs := b.Txs
	if txs == nil {
		pp, err := n.Prepare(b)
		if err != nil {
			r.Err, r.Stage = err, "prepare"
			return r
		}
		r.Prepare = pp
		txs = pp.Txs
	}
	r.Txs = txs
	pr, err := n.Process(b, txs)
	if err != nil {
		r.Err, r.Stage = err, "process"
		return r
	}
	r.Process = pr
	if pr.Status != abci.ResponseProcessProposal_ACCEPT {
		r.Err, r.Stage = fmt.Errorf("proposal rejected %s", n.LoggedErrors()), "process"
		return r
	}
	fr, err := n.Finalize(b, txs)
	if err != nil {
		r.Err, r.Stage = err, "finalize"
		return r
	}
	r.Finalize = fr
	if err := n.Commit(b, txs, fr); err != nil {
		r.Err, r.Stage = err, "commit"
	}
	r.Calls = n.EL.Calls()
	return r
}

// CheckTx submits a transaction to the app mempool.
func (n *Node) CheckTx(tx []byte) (*abci.ResponseCheckTx, error) {
	return n.App.CheckTx(&abci.RequestCheckTx{Tx: tx, Type: abci.CheckTxType_New})
}

// Ctx returns a context over the committed state for the next height (not branched).
func (n *Node) Ctx() sdk.Context {
	hdr := cmtproto.Header{ChainID: n.Cfg.ChainID, Height: n.Height + 1, Time: n.Time.Add(time.Second)}
	return n.App.NewUncachedContext(false, hdr).WithConsensusParams(*n.Cfg.Consensus)
}

// StoreKeys returns the app's KV store keys sorted by name.
func (n *Node) StoreKeys() []*storetypes.KVStoreKey {
	var keys []*storetypes.KVStoreKey
	for _, k := range n.App.GetStoreKeys() {
		if kv, ok := k.(*storetypes.KVStoreKey); ok {
			keys = append(keys, kv)
		}
	}
	sort.Slice(keys, func(i, j int) bool { return keys[i].Name() < keys[j].Name() })
	return keys
}

// Dump is a logical dump of KV stores: store name -> sorted key/value pairs.
type Dump map[string][][2][]byte

// DumpStores dumps the named stores (all when names is empty) from ctx.
func (n *Node) DumpStores(ctx sdk.Context, names ...string) Dump {
	want := map[string]bool{}
	for _, s := range names {
		want[s] = true
	}
	d := Dump{}
	for _, k := range n.StoreKeys() {
		if len(want) > 0 && !want[k.Name()] {
			continue
		}
		st := ctx.KVStore(k)
		it := st.Iterator(nil, nil)
		var kvs [][2][]byte
		for ; it.Valid(); it.Next() {
			kvs = append(kvs, [2][]byte{bytes.Clone(it.Key()), bytes.Clone(it.Value())})
		}
		it.Close()
		d[k.Name()] = kvs
	}
	return d
}

// Hash returns a digest of the dump.
func (d Dump) Hash() string {
	names := make([]string, 0, len(d))
	for k := range d {
		names = append(names, k)
	}
	sort.Strings(names)
	h := sha256.New()
	for _, nm := range names {
		h.Write([]byte(nm))
		for _, kv := range d[nm] {
			var l [8]byte
			binary.LittleEndian.PutUint64(l[:], uint64(len(kv[0])))
			h.Write(l[:])
			h.Write(kv[0])
			binary.LittleEndian.PutUint64(l[:], uint64(len(kv[1])))
			h.Write(l[:])
			h.Write(kv[1])
		}
	}
	return fmt.Sprintf("%x", h.Sum(nil)[:16])
}

// Diff lists the store/keys that differ between two dumps.
func (d Dump) Diff(o Dump) []string {
	var out []string
	names := map[string]bool{}
	for k := range d {
		names[k] = true
	}
	for k := range o {
		names[k] = true
	}
	for nm := range names {
		a, b := map[string]string{}, map[string]string{}
		for _, kv := range d[nm] {
			a[string(kv[0])] = string(kv[1])
		}
		for _, kv := range o[nm] {
			b[string(kv[0])] = string(kv[1])
		}
		for k, v := range a {
			if bv, ok := b[k]; !ok {
				out = append(out, fmt.Sprintf("%s/%x: removed", nm, k))
			} else if bv != v {
				out = append(out, fmt.Sprintf("%s/%x: changed", nm, k))
			}
		}
		for k := range b {
			if _, ok := a[k]; !ok {
				out = append(out, fmt.Sprintf("%s/%x: added", nm, k))
			}
		}
	}
	sort.Strings(out)
	return out
}

var _ = context.Background

// CopyDB deep-copies an in-memory database.
func CopyDB(db dbm.DB) dbm.DB {
	out := dbm.NewMemDB()
	it, err := db.Iterator(nil, nil)
	if err != nil {
		panic(err)
	}
	defer it.Close()
	for ; it.Valid(); it.Next() {
		if err := out.Set(bytes.Clone(it.Key()), bytes.Clone(it.Value())); err != nil {
			panic(err)
		}
	}
	return out
}

// Fork creates an independent replica of the node at its last committed state: a deep
// copy of the database under a *new* App (which is exactly the restart path) and a
// forked execution layer.
func (n *Node) Fork() (*Node, error) {
	el, err := n.EL.Fork()
	if err != nil {
		return nil, err
	}
	f, err := NewNode(n.Cfg, el, CopyDB(n.DB))
	if err != nil {
		el.Close()
		return nil, err
	}
	f.Height, f.Time, f.LastHash = n.Height, n.Time, bytes.Clone(n.LastHash)
	f.ValSet = n.ValSet.Clone()
	return f, nil
}

// CloseAll closes the node and its execution layer.
func (n *Node) CloseAll() {
	n.Close()
	n.EL.Close()
}

// InsertMempool decodes a transaction and inserts it into the application mempool.
func (n *Node) InsertMempool(txBytes []byte) error {
	tx, err := n.TxCfg.TxDecoder()(txBytes)
	if err != nil {
		return err
	}
	return n.App.Mempool().Insert(n.Ctx(), tx)
}
