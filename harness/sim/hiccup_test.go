package sim

import (
	"testing"
	"time"
)

// A fault-free engine that misses PrepareProposalHandler's wall-clock deadline once must not
// turn into a failed block in the harness (the next round is played instead).
func TestPrepareDeadlineIsRetried(t *testing.T) {
	n, err := NewChain(DefaultCfg(1, 1))
	if err != nil {
		t.Fatal(err)
	}
	defer n.CloseAll()
	if res := n.RunBlock(&Block{TimeDelta: time.Second}); res.Err != nil {
		t.Fatal(res.Err)
	}
	before := DeadlineRetries.Load()
	n.EL.HiccupOnce = 1300 * time.Millisecond
	if res := n.RunBlock(&Block{TimeDelta: time.Second}); res.Err != nil {
		t.Fatalf("stage %s: %v", res.Stage, res.Err)
	}
	if DeadlineRetries.Load() != before+1 {
		t.Fatalf("retries %d -> %d", before, DeadlineRetries.Load())
	}
}
