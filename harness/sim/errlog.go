package sim

import (
	"fmt"
	"sync"

	"cosmossdk.io/log"
)

// errLog is the application logger of a simulated node: it drops everything except the
// most recent Error records, which the harness attaches to a rejected proposal or a failed
// block so that a failure names its cause.
type errLog struct {
	mu   *sync.Mutex
	last *[]string
	with []any
}

func newErrLog() *errLog { return &errLog{mu: &sync.Mutex{}, last: &[]string{}} }

func (l *errLog) Info(string, ...any)  {}
func (l *errLog) Warn(string, ...any)  {}
func (l *errLog) Debug(string, ...any) {}
func (l *errLog) Error(msg string, kv ...any) {
	l.mu.Lock()
	defer l.mu.Unlock()
	s := msg
	for i := 0; i+1 < len(kv); i += 2 {
		s += fmt.Sprintf(" %v=%v", kv[i], kv[i+1])
	}
	*l.last = append(*l.last, s)
	if len(*l.last) > 4 {
		*l.last = (*l.last)[len(*l.last)-4:]
	}
}
func (l *errLog) With(kv ...any) log.Logger {
	return &errLog{mu: l.mu, last: l.last, with: append(append([]any{}, l.with...), kv...)}
}
func (l *errLog) Impl() any { return l }

func (l *errLog) take() string {
	l.mu.Lock()
	defer l.mu.Unlock()
	s := fmt.Sprint(*l.last)
	*l.last = nil
	return s
}

func (l *errLog) peek() string {
	l.mu.Lock()
	defer l.mu.Unlock()
	return fmt.Sprint(*l.last)
}
