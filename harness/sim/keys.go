// Package sim contains the closed-world simulators that surround the real goat
// application in every check: deterministic keys, a reference genesis builder,
// a fake execution layer (ELSim) reachable through goat's real engine client, and a
// fake consensus engine (CometSim) that feeds ABCI requests.
package sim

import (
	"crypto/sha256"
	"fmt"

	"github.com/btcsuite/btcd/btcec/v2"
	"github.com/btcsuite/btcd/btcec/v2/schnorr"
	"github.com/cosmos/cosmos-sdk/crypto/keys/secp256k1"
	sdk "github.com/cosmos/cosmos-sdk/types"
	"github.com/ethereum/go-ethereum/common"
	ethcrypto "github.com/ethereum/go-ethereum/crypto"
	goatcrypto "github.com/goatnetwork/goat/pkg/crypto"
	relayertypes "github.com/goatnetwork/goat/x/relayer/types"
	blst "github.com/supranational/blst/bindings/go"
)

const Bech32Prefix = "goat"

// Key is a deterministic secp256k1 identity (validator, relayer member or plain account).
// Public key, address and uncompressed form are computed once.
type Key struct {
	Name string
	Priv *secp256k1.PrivKey
	pub  *secp256k1.PubKey
	addr sdk.AccAddress
	unc  [64]byte
}

func NewKey(name string) Key {
	k := Key{Name: name, Priv: secp256k1.GenPrivKeyFromSecret([]byte("verif/" + name))}
	k.pub = k.Priv.PubKey().(*secp256k1.PubKey)
	k.addr = sdk.AccAddress(k.pub.Address())
	pk, err := btcec.ParsePubKey(k.pub.Key)
	if err != nil {
		panic(err)
	}
	copy(k.unc[:], pk.SerializeUncompressed()[1:])
	return k
}

func (k Key) Pub() *secp256k1.PubKey  { return k.pub }
func (k Key) Addr() sdk.AccAddress    { return k.addr }
func (k Key) AddrStr() string         { return k.addr.String() }
func (k Key) EthAddr() common.Address { return common.BytesToAddress(k.addr) }

// Uncompressed returns the 64-byte X||Y form used in goat-geth's CreateRequest.
func (k Key) Uncompressed() [64]byte { return k.unc }

// SignECDSA64 signs a 32-byte digest and returns the 64-byte r||s form goat expects.
func (k Key) SignECDSA64(digest []byte) []byte {
	sk, err := ethcrypto.ToECDSA(k.Priv.Key)
	if err != nil {
		panic(err)
	}
	sig, err := ethcrypto.Sign(digest, sk)
	if err != nil {
		panic(err)
	}
	return sig[:64]
}

// BLSKey is a deterministic BLS12-381 vote key.
type BLSKey struct {
	Name string
	SK   *blst.SecretKey
	PK   []byte // compressed G2, 96 bytes
}

func NewBLSKey(name string) BLSKey {
	ikm := sha256.Sum256([]byte("verif/bls/" + name))
	sk := blst.KeyGen(ikm[:])
	pk := new(goatcrypto.PublicKey).From(sk).Compress()
	return BLSKey{Name: name, SK: sk, PK: pk}
}

func (b BLSKey) Sign(msg []byte) []byte { return goatcrypto.Sign(b.SK, msg) }

// Member is a relayer group member: transaction key + vote key.
type Member struct {
	Key
	BLS BLSKey
}

func NewMember(name string) Member { return Member{Key: NewKey(name), BLS: NewBLSKey(name)} }

// BtcKey is a relayer Bitcoin key in one of the two supported encodings.
type BtcKey struct {
	Name    string
	Priv    *btcec.PrivateKey
	Schnorr bool
}

func NewBtcKey(name string, isSchnorr bool) BtcKey {
	h := sha256.Sum256([]byte("verif/btc/" + name))
	priv, _ := btcec.PrivKeyFromBytes(h[:])
	return BtcKey{Name: name, Priv: priv, Schnorr: isSchnorr}
}

func (k BtcKey) Public() *relayertypes.PublicKey {
	if k.Schnorr {
		return &relayertypes.PublicKey{Key: &relayertypes.PublicKey_Schnorr{Schnorr: schnorr.SerializePubKey(k.Priv.PubKey())}}
	}
	return &relayertypes.PublicKey{Key: &relayertypes.PublicKey_Secp256K1{Secp256K1: k.Priv.PubKey().SerializeCompressed()}}
}

func (k BtcKey) String() string { return fmt.Sprintf("%s(schnorr=%v)", k.Name, k.Schnorr) }
