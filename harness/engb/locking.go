// Package engb is Engine B: explicit-state search over the real keeper transition
// functions, on copy-on-write branches (CacheContext) of a real App's committed state.
package engb

import (
	"bytes"
	"fmt"
	"math/big"
	"sort"
	"strings"
	"time"

	"cosmossdk.io/collections"
	"cosmossdk.io/math"
	abci "github.com/cometbft/cometbft/abci/types"
	cmtproto "github.com/cometbft/cometbft/proto/tendermint/types"
	"github.com/cosmos/cosmos-sdk/baseapp"
	sdk "github.com/cosmos/cosmos-sdk/types"
	"github.com/ethereum/go-ethereum/common"
	ethtypes "github.com/ethereum/go-ethereum/core/types"
	"github.com/ethereum/go-ethereum/core/types/goattypes"
	lockingmodule "github.com/goatnetwork/goat/x/locking/module"
	lockingtypes "github.com/goatnetwork/goat/x/locking/types"
	"verifharness/sim"
)

// Snap is a decoded snapshot of the locking module's state.
type Snap struct {
	Height    int64
	Time      time.Time
	Params    lockingtypes.Params
	Vals      map[string]lockingtypes.Validator // key: string(cons address)
	Addrs     []string                          // sorted
	Tokens    map[string]lockingtypes.Token
	Threshold sdk.Coins
	Slashed   map[string]math.Int
	Nonce     uint64
	Pool      lockingtypes.RewardPool
	Queue     lockingtypes.EthTxQueue
	Unlocks   []UnlockEntry
	Ranking   []RankEntry // descending power
	ValSet    map[string]uint64
	LockIdx   map[string]math.Int // denom + "|" + addr
}

type UnlockEntry struct {
	T time.Time
	U []*lockingtypes.Unlock
}

type RankEntry struct {
	Power uint64
	Addr  string
}

func must(err error) {
	if err != nil {
		panic(err)
	}
}

// TakeSnap decodes the locking state with the keeper's own collection codecs, from a
// single pass over the module store (one iterator through the branch stack).
func TakeSnap(n *sim.Node, ctx sdk.Context) *Snap {
	k := n.App.LockingKeeper
	s := &Snap{Height: ctx.BlockHeight(), Time: ctx.BlockTime(), Vals: map[string]lockingtypes.Validator{},
		Tokens: map[string]lockingtypes.Token{}, Slashed: map[string]math.Int{}, ValSet: map[string]uint64{}, LockIdx: map[string]math.Int{}}
	it := ctx.KVStore(n.App.GetKey(lockingtypes.StoreKey)).Iterator(nil, nil)
	defer it.Close()
	for ; it.Valid(); it.Next() {
		key, val := it.Key(), it.Value()
		body := key[1:]
		switch key[0] {
		case 0:
			must(s.Params.Unmarshal(val))
		case 1:
			_, kk, err := k.Locking.KeyCodec().Decode(body)
			must(err)
			v, err := k.Locking.ValueCodec().Decode(val)
			must(err)
			s.LockIdx[kk.K1()+"|"+string(kk.K2())] = v
		case 2:
			_, kk, err := k.PowerRanking.KeyCodec().Decode(body)
			must(err)
			s.Ranking = append(s.Ranking, RankEntry{Power: kk.K1(), Addr: string(kk.K2())})
		case 3:
			_, kk, err := k.ValidatorSet.KeyCodec().Decode(body)
			must(err)
			v, err := k.ValidatorSet.ValueCodec().Decode(val)
			must(err)
			s.ValSet[string(kk)] = v
		case 4:
			_, kk, err := k.Validators.KeyCodec().Decode(body)
			must(err)
			v, err := k.Validators.ValueCodec().Decode(val)
			must(err)
			s.Vals[string(kk)] = v
			s.Addrs = append(s.Addrs, string(kk))
		case 5:
			_, kk, err := k.Tokens.KeyCodec().Decode(body)
			must(err)
			v, err := k.Tokens.ValueCodec().Decode(val)
			must(err)
			s.Tokens[kk] = v
		case 6:
			_, kk, err := k.Slashed.KeyCodec().Decode(body)
			must(err)
			v, err := k.Slashed.ValueCodec().Decode(val)
			must(err)
			s.Slashed[kk] = v
		case 7:
			v, err := collections.Uint64Value.Decode(val)
			must(err)
			s.Nonce = v
		case 8:
			must(s.Queue.Unmarshal(val))
		case 9:
			must(s.Pool.Unmarshal(val))
		case 10:
			_, kk, err := k.UnlockQueue.KeyCodec().Decode(body)
			must(err)
			v, err := k.UnlockQueue.ValueCodec().Decode(val)
			must(err)
			s.Unlocks = append(s.Unlocks, UnlockEntry{T: kk, U: v.Unlocks})
		case 11:
			var th lockingtypes.Threshold
			must(th.Unmarshal(val))
			s.Threshold = th.List
		default:
			panic(fmt.Sprintf("unknown locking store prefix %d", key[0]))
		}
	}
	sort.Strings(s.Addrs)
	// ranking was read ascending; present it descending like EndBlocker walks it
	for a, b := 0, len(s.Ranking)-1; a < b; a, b = a+1, b-1 {
		s.Ranking[a], s.Ranking[b] = s.Ranking[b], s.Ranking[a]
	}
	return s
}

func relTime(t, now time.Time) int64 {
	d := t.Sub(now)
	if d < 0 {
		return -1
	}
	return int64(d)
}

// Canon is the canonical state key: all fields, with every time value re-based to the
// snapshot's block time (all time comparisons in the module are relative to block time).
func (s *Snap) Canon() string {
	var sb strings.Builder
	fmt.Fprintf(&sb, "h%d;", s.Height)
	for _, a := range s.Addrs {
		v := s.Vals[a]
		fmt.Fprintf(&sb, "V%x:%d,%s,%s,%s,%d,%d/%d,%d;", a, v.Power, v.Locking, v.Reward, v.GasReward, v.Status, v.SigningInfo.Offset, v.SigningInfo.Missed, relTime(v.JailedUntil, s.Time))
	}
	for _, d := range sortedKeys(s.Tokens) {
		fmt.Fprintf(&sb, "T%s:%d,%s;", d, s.Tokens[d].Weight, s.Tokens[d].Threshold)
	}
	fmt.Fprintf(&sb, "TH%s;", s.Threshold)
	for _, d := range sortedKeys(s.Slashed) {
		fmt.Fprintf(&sb, "S%s:%s;", d, s.Slashed[d])
	}
	fmt.Fprintf(&sb, "N%d;P%s,%s,%s;", s.Nonce, s.Pool.Goat, s.Pool.Gas, s.Pool.Remain)
	for _, r := range s.Queue.Rewards {
		fmt.Fprintf(&sb, "QR%d,%x,%s,%s;", r.Id, r.Recipient, r.Goat, r.Gas)
	}
	for _, u := range s.Queue.Unlocks {
		fmt.Fprintf(&sb, "QU%d,%x,%x,%s;", u.Id, u.Token, u.Recipient, u.Amount)
	}
	for _, e := range s.Unlocks {
		fmt.Fprintf(&sb, "U@%d:", relTime(e.T, s.Time))
		for _, u := range e.U {
			fmt.Fprintf(&sb, "%d,%x,%x,%s/", u.Id, u.Token, u.Recipient, u.Amount)
		}
		sb.WriteString(";")
	}
	for _, r := range s.Ranking {
		fmt.Fprintf(&sb, "R%d,%x;", r.Power, r.Addr)
	}
	for _, a := range sortedKeys(s.ValSet) {
		fmt.Fprintf(&sb, "VS%x:%d;", a, s.ValSet[a])
	}
	for _, a := range sortedKeys(s.LockIdx) {
		fmt.Fprintf(&sb, "L%x:%s;", a, s.LockIdx[a])
	}
	return sb.String()
}

func sortedKeys[V any](m map[string]V) []string {
	ks := make([]string, 0, len(m))
	for k := range m {
		ks = append(ks, k)
	}
	sort.Strings(ks)
	return ks
}

// EvSpec is one piece of misbehaviour evidence.
type EvSpec struct {
	Val       int   `json:"val"`        // index into World.Keys
	AgeBlocks int64 `json:"age_blocks"` // block height - evidence height
	AgeSecs   int64 `json:"age_secs"`
	LightAtk  bool  `json:"light_client_attack,omitempty"`
}

// LOp is one execution-layer locking request in the explored alphabet.
type LOp struct {
	Kind  string `json:"kind"` // create lock unlock weight threshold claim grant
	Val   int    `json:"val,omitempty"`
	Token int    `json:"token,omitempty"`
	Amt   string `json:"amt,omitempty"` // decimal
	U64   uint64 `json:"u64,omitempty"` // weight
}

// LBlock is one explored block of the locking world.
type LBlock struct {
	Dt       int64    `json:"dt_s"`
	DtMs     int64    `json:"dt_ms,omitempty"` // added to Dt: block times with a sub-second part
	// Reimport: before this block the module's state is exported, its store wiped, and the export
	// (through its JSON form, as in a genesis file) imported again - the state hand-over of a chain
	// restarted from an export. Votes and evidence go on as if nothing had happened, so for the
	// reference model the step is a no-op.
	Reimport bool `json:"reimport,omitempty"`
	Absent   []int    `json:"absent,omitempty"`
	Evidence []EvSpec `json:"evidence,omitempty"`
	Ops      []LOp    `json:"ops,omitempty"`
	Gas      string   `json:"gas,omitempty"`
}

// Delta is the time this block lies after its predecessor.
func (b LBlock) Delta() time.Duration {
	return time.Duration(b.Dt)*time.Second + time.Duration(b.DtMs)*time.Millisecond
}

func (b LBlock) String() string {
	var parts []string
	if b.DtMs != 0 {
		parts = append(parts, fmt.Sprintf("dt=%d.%03d", b.Dt, b.DtMs))
	} else {
		parts = append(parts, fmt.Sprintf("dt=%d", b.Dt))
	}
	if len(b.Absent) > 0 {
		parts = append(parts, fmt.Sprintf("absent=%v", b.Absent))
	}
	if b.Reimport {
		parts = append(parts, "state-exported-and-imported")
	}
	for _, e := range b.Evidence {
		parts = append(parts, fmt.Sprintf("evidence(v%d,-%db,-%ds)", e.Val, e.AgeBlocks, e.AgeSecs))
	}
	for _, o := range b.Ops {
		switch o.Kind {
		case "create", "claim":
			parts = append(parts, fmt.Sprintf("%s(v%d)", o.Kind, o.Val))
		case "lock", "unlock":
			parts = append(parts, fmt.Sprintf("%s(v%d,t%d,%s)", o.Kind, o.Val, o.Token, o.Amt))
		case "weight":
			parts = append(parts, fmt.Sprintf("weight(t%d,%d)", o.Token, o.U64))
		case "threshold":
			parts = append(parts, fmt.Sprintf("threshold(t%d,%s)", o.Token, o.Amt))
		case "grant":
			parts = append(parts, fmt.Sprintf("grant(%s)", o.Amt))
		}
	}
	if b.Gas != "" && b.Gas != "0" {
		parts = append(parts, "gas="+b.Gas)
	}
	return strings.Join(parts, " ")
}

// World is the closed locking world: a node plus the key/token alphabets.
type World struct {
	N      *sim.Node
	Keys   []sim.Key
	Tokens []common.Address
	Root   sdk.Context
}

// LState is one search node.
type LState struct {
	Ctx    sdk.Context
	Height int64
	Time   time.Time
	RV     *sim.RefValSet
	NextID uint64 // next unlock / claim request id (execution-layer counter)
	Snap   *Snap
	Aux    any // monitor-owned history state carried along the path
}

// StepResult is everything observable about one block step.
type StepResult struct {
	Pre, AfterBegin, Post   *Snap
	AfterTx                 *Snap // after the execution-block requests, before EndBlocker (when the monitor asks for mid-block snapshots)
	BeginErr, TxErr, EndErr error
	ValSetErr               error
	Truncated               bool // validator set would become empty (environment assumption)
	Updates                 []abci.ValidatorUpdate
	Delivered               []*sim.SysTx
	Reqs                    goattypes.LockingRequests
	Votes                   []abci.VoteInfo
	Panic                   any
	TxPanic                 any // a panic inside the execution-block message (recovered like baseapp does; the message fails)
}

func bigFrom(s string) *big.Int {
	if s == "" {
		return new(big.Int)
	}
	v, ok := new(big.Int).SetString(s, 10)
	if !ok {
		panic("bad integer " + s)
	}
	return v
}

// BuildReqs turns the block's ops into execution-layer requests (ids are assigned
// consecutively like the locking contract does).
func (w *World) valAddr(i int) common.Address {
	if i >= len(w.Keys) {
		return common.BytesToAddress([]byte{0xde, 0xad, byte(i)}) // a validator nobody created
	}
	return w.Keys[i].EthAddr()
}

func (w *World) BuildReqs(b *LBlock, nextID *uint64, height int64) goattypes.LockingRequests {
	var r goattypes.LockingRequests
	r.Gas = []*goattypes.GasRequest{goattypes.NewGasRequest(uint64(height), bigFrom(b.Gas))}
	for _, o := range b.Ops {
		switch o.Kind {
		case "create":
			k := w.Keys[o.Val]
			r.Creates = append(r.Creates, &goattypes.CreateRequest{Validator: k.EthAddr(), Pubkey: k.Uncompressed()})
		case "lock":
			r.Locks = append(r.Locks, &goattypes.LockRequest{Validator: w.valAddr(o.Val), Token: w.Tokens[o.Token], Amount: bigFrom(o.Amt)})
		case "unlock":
			r.Unlocks = append(r.Unlocks, &goattypes.UnlockRequest{Id: *nextID, Validator: w.valAddr(o.Val),
				Recipient: common.BytesToAddress([]byte{0xee, byte(o.Val)}), Token: w.Tokens[o.Token], Amount: bigFrom(o.Amt)})
			*nextID++
		case "claim":
			r.Claims = append(r.Claims, &goattypes.ClaimRequest{Id: *nextID, Validator: w.valAddr(o.Val), Recipient: common.BytesToAddress([]byte{0xcc, byte(o.Val)})})
			*nextID++
		case "grant":
			r.Grants = append(r.Grants, &goattypes.GrantRequest{Amount: bigFrom(o.Amt)})
		case "weight":
			r.UpdateWeights = append(r.UpdateWeights, &goattypes.UpdateTokenWeightRequest{Token: w.Tokens[o.Token], Weight: o.U64})
		case "threshold":
			r.UpdateThresholds = append(r.UpdateThresholds, &goattypes.UpdateTokenThresholdRequest{Token: w.Tokens[o.Token], Threshold: bigFrom(o.Amt)})
		default:
			panic("unknown op " + o.Kind)
		}
	}
	return r
}

// NewWorld boots a chain, commits one real block and returns the root state.
func NewWorld(cfg *sim.GenesisCfg, keys []sim.Key, tokens []common.Address) (*World, *LState, error) {
	n, err := sim.NewChain(cfg)
	if err != nil {
		return nil, nil, err
	}
	if r := n.RunBlock(&sim.Block{TimeDelta: time.Second}); r.Err != nil {
		return nil, nil, fmt.Errorf("first block: %s: %w", r.Stage, r.Err)
	}
	w := &World{N: n, Keys: keys, Tokens: tokens}
	hdr := cmtproto.Header{ChainID: cfg.ChainID, Height: n.Height, Time: n.Time}
	root := n.App.NewUncachedContext(false, hdr).WithConsensusParams(*cfg.Consensus)
	w.Root = root
	ctx, _ := root.CacheContext()
	st := &LState{Ctx: ctx, Height: n.Height, Time: n.Time, RV: n.ValSet.Clone(), NextID: 1}
	st.Snap = TakeSnap(n, ctx.WithBlockHeight(n.Height).WithBlockTime(n.Time))
	return w, st, nil
}

func (w *World) Close() {
	w.N.Close()
	w.N.EL.Close()
}

func (w *World) keyIndex(addr []byte) int {
	for i, k := range w.Keys {
		if bytes.Equal(k.Addr(), addr) {
			return i
		}
	}
	return -1
}

// Votes builds the vote infos for block h from the reference validator set.
func (w *World) Votes(st *LState, h int64, absent []int) []abci.VoteInfo {
	var votes []abci.VoteInfo
	if h < 2 {
		return nil
	}
	abs := map[string]bool{}
	for _, i := range absent {
		abs[string(w.Keys[i].Addr())] = true
	}
	for _, v := range st.RV.At(h - 1) {
		flag := cmtproto.BlockIDFlagCommit
		if abs[string(v.Address)] {
			flag = cmtproto.BlockIDFlagAbsent
		}
		votes = append(votes, abci.VoteInfo{Validator: abci.Validator{Address: v.Address, Power: v.Power}, BlockIdFlag: flag})
	}
	return votes
}

// Misbehavior converts evidence specs into ABCI misbehaviour records.
func (w *World) Misbehavior(h int64, t time.Time, evs []EvSpec) []abci.Misbehavior {
	var out []abci.Misbehavior
	for _, e := range evs {
		typ := abci.MisbehaviorType_DUPLICATE_VOTE
		if e.LightAtk {
			typ = abci.MisbehaviorType_LIGHT_CLIENT_ATTACK
		}
		out = append(out, abci.Misbehavior{Type: typ, Validator: abci.Validator{Address: w.Keys[e.Val].Addr(), Power: 1},
			Height: h - e.AgeBlocks, Time: t.Add(-time.Duration(e.AgeSecs) * time.Second), TotalVotingPower: 10})
	}
	return out
}

// Step executes one block on a branch of st and returns the successor state.
// It mirrors what BaseApp.FinalizeBlock does around the locking keeper: BeginBlocker,
// then the execution-block message (dequeue + requests) as one atomic transaction, then
// EndBlocker. Conformance with the real pipeline is checked separately.
func (w *World) Step(st *LState, b *LBlock, wantMid bool) (*LState, *StepResult) {
	k := w.N.App.LockingKeeper
	res := &StepResult{}
	h := st.Height + 1
	t := st.Time.Add(b.Delta())
	votes := w.Votes(st, h, b.Absent)
	misb := w.Misbehavior(h, t, b.Evidence)
	res.Votes = votes
	bctx, _ := st.Ctx.CacheContext()
	bctx = bctx.WithBlockHeight(h).WithBlockTime(t).WithVoteInfos(votes).
		WithCometInfo(baseapp.NewBlockInfo(misb, nil, w.N.NodeAddr(), abci.CommitInfo{Votes: votes})).
		WithEventManager(sdk.NewEventManager()).WithHeaderHash(sim.FakeBlockHash(h, nil))
	next := &LState{Height: h, Time: t, NextID: st.NextID}
	res.Reqs = w.BuildReqs(b, &next.NextID, h)

	func() {
		defer func() {
			if p := recover(); p != nil {
				res.Panic = p
			}
		}()
		if b.Reimport {
			gs := lockingmodule.ExportGenesis(bctx, k)
			cdc := w.N.App.AppCodec()
			var back lockingtypes.GenesisState
			cdc.MustUnmarshalJSON(cdc.MustMarshalJSON(gs), &back)
			store := bctx.KVStore(w.N.App.GetKey(lockingtypes.StoreKey))
			var keys [][]byte
			it := store.Iterator(nil, nil)
			for ; it.Valid(); it.Next() {
				keys = append(keys, append([]byte{}, it.Key()...))
			}
			it.Close()
			for _, key := range keys {
				store.Delete(key)
			}
			lockingmodule.InitGenesis(bctx, k, back)
		}
		res.BeginErr = k.BeginBlocker(bctx)
		if res.BeginErr != nil {
			return
		}
		if wantMid {
			res.AfterBegin = TakeSnap(w.N, bctx)
		}
		tctx, write := bctx.CacheContext()
		var err error
		var dq []*ethtypes.Transaction
		func() {
			// a panic inside the message is recovered by the transaction runner (baseapp.runTx):
			// the message fails and its writes are dropped, the block goes on
			defer func() {
				if p := recover(); p != nil {
					res.TxPanic = p
					err = fmt.Errorf("panic in the execution-block message: %v", p)
				}
			}()
			dq, err = k.DequeueLockingModuleTx(tctx)
			if err == nil {
				res.Delivered = sim.DecodeSysTxs(dq)
				err = k.ProcessLockingRequest(tctx, res.Reqs)
			}
		}()
		if err != nil {
			res.TxErr = err
			res.Delivered = nil
		} else {
			write()
		}
		if wantMid {
			res.AfterTx = TakeSnap(w.N, bctx)
		}
		res.Updates, res.EndErr = k.EndBlocker(bctx)
	}()
	if res.Panic != nil || res.BeginErr != nil || res.EndErr != nil {
		return nil, res
	}
	res.Post = TakeSnap(w.N, bctx)
	rv := st.RV.Clone()
	if err := rv.Apply(h, res.Updates); err != nil {
		if err == sim.ErrEmptySet {
			res.Truncated = true
		} else {
			res.ValSetErr = err
		}
		return nil, res
	}
	next.Ctx, next.RV = bctx, rv
	return next, res
}
