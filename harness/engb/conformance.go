package engb

import (
	"fmt"
	"time"

	abci "github.com/cometbft/cometbft/abci/types"
	cmtproto "github.com/cometbft/cometbft/proto/tendermint/types"
	"github.com/ethereum/go-ethereum/common"
	"verifharness/sim"
)

// Conformance binds Engine B to the real block pipeline: the same history is executed
// (a) with Engine B's block step (keeper functions on CacheContext branches) and (b) as
// real consensus blocks through PrepareProposal-free, harness-assembled proposals ->
// ProcessProposal -> FinalizeBlock -> Commit of the real application, the requests being
// carried by a fake-execution-layer payload inside a real MsgNewEthBlock. After every
// block the canonical dump of the locking store and the validator updates must agree.
func Conformance(cfg *sim.GenesisCfg, keys []sim.Key, tokens []common.Address, path []LBlock) error {
	w, st, err := NewWorld(cfg, keys, tokens)
	if err != nil {
		return err
	}
	defer w.Close()
	n, err := sim.NewChain(cfg)
	if err != nil {
		return err
	}
	defer n.CloseAll()
	if r := n.RunBlock(&sim.Block{TimeDelta: time.Second}); r.Err != nil {
		return fmt.Errorf("real chain first block: %w", r.Err)
	}
	nextID := uint64(1)
	for i := range path {
		b := &path[i]
		next, res := w.Step(st, b, false)
		if next != nil {
			next.Snap = res.Post
		}
		// the same block on the real application
		h := n.Height + 1
		t := n.Time.Add(b.Delta())
		reqs := w.BuildReqs(b, &nextID, h)
		n.EL.ClearRequests()
		n.EL.NextLocking = reqs
		n.EL.NextLocking.Gas = nil
		n.EL.GasAmount = bigFrom(b.Gas)
		blk := &sim.Block{TimeDelta: b.Delta(), Misbehavior: w.Misbehavior(h, t, b.Evidence)}
		if len(b.Absent) > 0 {
			blk.Absent = map[string]bool{}
			for _, a := range b.Absent {
				blk.Absent[string(keys[a].Addr())] = true
			}
		}
		eth, _, err := n.BuildEthBlockTx(sim.EthBlockOpts{})
		if err != nil {
			return fmt.Errorf("step %d: build: %w", i, err)
		}
		blk.Txs = [][]byte{eth}
		rr := n.RunBlock(blk)
		if next == nil {
			// Engine B could not complete the block: the real pipeline must fail too
			if res.Truncated {
				if rr.Err == nil {
					return fmt.Errorf("step %d (%s): engine B truncates (empty validator set) but the real block committed", i, b)
				}
				return nil
			}
			if rr.Err == nil {
				return fmt.Errorf("step %d (%s): engine B fails (begin=%v end=%v panic=%v valset=%v) but the real block committed", i, b, res.BeginErr, res.EndErr, res.Panic, res.ValSetErr)
			}
			return nil
		}
		if rr.Err != nil {
			return fmt.Errorf("step %d (%s): real block fails at %s (%v) but engine B completed it", i, b, rr.Stage, rr.Err)
		}
		if txOK := rr.Finalize.TxResults[0].Code == 0; txOK != (res.TxErr == nil) {
			return fmt.Errorf("step %d (%s): execution-block message ok=%v on the real chain, engine B tx error=%v", i, b, txOK, res.TxErr)
		}
		if got, want := updKey(rr.Finalize.ValidatorUpdates), updKey(res.Updates); got != want {
			return fmt.Errorf("step %d (%s): validator updates differ: real %s, engine B %s", i, b, got, want)
		}
		hdr := cmtproto.Header{ChainID: cfg.ChainID, Height: n.Height, Time: n.Time}
		real := TakeSnap(n, n.App.NewUncachedContext(false, hdr).WithBlockHeight(n.Height).WithBlockTime(n.Time)).Canon()
		if model := next.Snap.Canon(); real != model {
			return fmt.Errorf("step %d (%s): locking store differs between the real pipeline and engine B:\n real  %s\n engB  %s", i, b, real, model)
		}
		st = next
	}
	return nil
}

func updKey(us []abci.ValidatorUpdate) string {
	m := map[string]int64{}
	for _, u := range us {
		m[fmt.Sprintf("%x", sim.CmtAddr(u))] = u.Power
	}
	return fmt.Sprint(sortedKV(m))
}

func sortedKV(m map[string]int64) []string {
	ks := sortedKeys(m)
	out := make([]string, len(ks))
	for i, k := range ks {
		out[i] = fmt.Sprintf("%s:%d", k, m[k])
	}
	return out
}
