package engb

import (
	"crypto/sha256"
	"fmt"
	"runtime"
	"sync"

	"verifharness/mc"
)

// Monitor is called on every transition with the path that reaches it (last element is
// the block just executed). next is nil when the block could not complete.
type Monitor func(path []LBlock, pre *LState, next *LState, res *StepResult)

// Explorer is a depth-bounded DFS with canonical-state de-duplication.
type Explorer struct {
	Run     *mc.Run
	NewRoot func() (*World, *LState, error)
	Menu    func(w *World, st *LState, depth int) []LBlock
	Monitor Monitor
	Depth   int
	WantMid bool // take a snapshot after BeginBlocker too
	// ExtraKey adds monitor-owned history state to the canonical key (may be nil).
	ExtraKey func(st *LState) string

	shards [64]seenShard
	// Completed is the deepest bound fully explored.
	Completed int
	maxDepth  int

	// ConformancePaths collects the traces to be replayed through the real block pipeline:
	// every trace up to ConformanceDepth and a deterministic stride of the deeper ones.
	ConformanceDepth int
	confMu           sync.Mutex
	ConformancePaths [][]LBlock
}

func (e *Explorer) noteTrace(p []LBlock) {
	if e.ConformanceDepth == 0 {
		return
	}
	for _, b := range p {
		if b.Reimport {
			return // the block pipeline has no counterpart of a mid-history state hand-over (C18 restarts real chains)
		}
	}
	keep := len(p) <= e.ConformanceDepth
	if !keep {
		h := sha256.Sum256([]byte(fmt.Sprint(p)))
		keep = (uint32(h[0])|uint32(h[1])<<8|uint32(h[2])<<16)%4001 == 0
	}
	if keep {
		e.confMu.Lock()
		if len(e.ConformancePaths) < 5000 {
			e.ConformancePaths = append(e.ConformancePaths, append([]LBlock{}, p...))
		}
		e.confMu.Unlock()
	}
}

type seenShard struct {
	mu sync.Mutex
	m  map[[16]byte]int8
}

func (e *Explorer) visit(key string, remaining int) bool {
	sum := sha256.Sum256([]byte(key))
	var k [16]byte
	copy(k[:], sum[:16])
	sh := &e.shards[sum[31]%64]
	sh.mu.Lock()
	defer sh.mu.Unlock()
	if sh.m == nil {
		sh.m = map[[16]byte]int8{}
	}
	if old, ok := sh.m[k]; ok && int(old) >= remaining {
		return false
	}
	if _, ok := sh.m[k]; !ok {
		e.Run.States.Add(1)
	}
	sh.m[k] = int8(remaining)
	return true
}

func (e *Explorer) key(st *LState) string {
	k := st.Snap.Canon() + "#" + st.RV.Key(st.Height)
	if e.ExtraKey != nil {
		k += "#" + e.ExtraKey(st)
	}
	return k
}

func (e *Explorer) dfs(w *World, st *LState, path []LBlock, depth int) {
	if depth >= e.Depth {
		return
	}
	if e.Run.Expired() {
		e.Run.Cap("time budget reached during DFS")
		return
	}
	if !e.visit(e.key(st), e.Depth-depth) {
		return
	}
	for _, b := range e.Menu(w, st, depth) {
		b := b
		next, res := w.Step(st, &b, e.WantMid)
		res.Pre = st.Snap
		e.Run.Transitions.Add(1)
		e.Run.Validated.Add(1)
		p := append(append([]LBlock{}, path...), b)
		if next != nil {
			next.Snap = res.Post
		}
		if e.Depth == e.maxDepth {
			e.noteTrace(p)
		}
		e.Monitor(p, st, next, res)
		if next != nil {
			e.dfs(w, next, p, depth+1)
		}
	}
}

// Explore runs the search with iterative deepening (so that the first counter-example
// is a shortest one); counters of states refer to the deepest completed iteration.
func (e *Explorer) Explore() error {
	max := e.Depth
	e.maxDepth = max
	base := e.Run.States.Load()
	for d := 1; d <= max; d++ {
		e.Depth = d
		for i := range e.shards {
			e.shards[i].m = nil
		}
		e.Run.States.Store(base)
		if err := e.exploreOnce(); err != nil {
			return err
		}
		if e.Run.NumViolations() > 0 || e.Run.Expired() {
			break
		}
		e.Completed = d
	}
	e.Depth = max
	return nil
}

func (e *Explorer) exploreOnce() error {
	// Serial pre-pass: execute and monitor the first level once; collect level-2 jobs.
	w0, root0, err := e.NewRoot()
	if err != nil {
		return err
	}
	e.visit(e.key(root0), e.Depth)
	first := e.Menu(w0, root0, 0)
	type job struct{ i, j int }
	var jobs []job
	auxByI := map[int]any{}
	for i := range first {
		b := first[i]
		next, res := w0.Step(root0, &b, e.WantMid)
		res.Pre = root0.Snap
		e.Run.Transitions.Add(1)
		e.Run.Validated.Add(1)
		if next != nil {
			next.Snap = res.Post
		}
		if e.Depth == e.maxDepth {
			e.noteTrace([]LBlock{b})
		}
		e.Monitor([]LBlock{b}, root0, next, res)
		if next == nil || e.Depth < 2 {
			continue
		}
		if !e.visit(e.key(next), e.Depth-1) {
			continue
		}
		auxByI[i] = next.Aux
		for j := range e.Menu(w0, next, 1) {
			jobs = append(jobs, job{i, j})
		}
	}
	w0.Close()
	if len(jobs) == 0 {
		return nil
	}
	workers := runtime.NumCPU()
	if workers > len(jobs) {
		workers = len(jobs)
	}
	var firstErr error
	var mu sync.Mutex
	ch := make(chan job, len(jobs))
	for _, jb := range jobs {
		ch <- jb
	}
	close(ch)
	var wg sync.WaitGroup
	for wk := 0; wk < workers; wk++ {
		wg.Add(1)
		go func() {
			defer wg.Done()
			defer mc.Guard()
			w, root, err := e.NewRoot()
			if err != nil {
				mu.Lock()
				firstErr = err
				mu.Unlock()
				return
			}
			defer w.Close()
			lastI := -1
			var mid *LState
			for jb := range ch {
				if jb.i != lastI {
					b := first[jb.i]
					var res *StepResult
					mid, res = w.Step(root, &b, false) // silent re-execution of the level-1 step
					if mid == nil {
						panic("explorer: level-1 step not reproducible")
					}
					mid.Snap = res.Post
					mid.Aux = auxByI[jb.i]
					lastI = jb.i
				}
				b2 := e.Menu(w, mid, 1)[jb.j]
				next, res := w.Step(mid, &b2, e.WantMid)
				res.Pre = mid.Snap
				e.Run.Transitions.Add(1)
				e.Run.Validated.Add(1)
				p := []LBlock{first[jb.i], b2}
				if next != nil {
					next.Snap = res.Post
				}
				if e.Depth == e.maxDepth {
					e.noteTrace(p)
				}
				e.Monitor(p, mid, next, res)
				if next != nil {
					e.dfs(w, next, p, 2)
				}
			}
		}()
	}
	wg.Wait()
	return firstErr
}

// Replay runs a path linearly on a fresh world, calling the monitor on every step.
func Replay(newRoot func() (*World, *LState, error), path []LBlock, mon Monitor, wantMid bool) error {
	w, st, err := newRoot()
	if err != nil {
		return err
	}
	defer w.Close()
	for i := range path {
		next, res := w.Step(st, &path[i], wantMid)
		res.Pre = st.Snap
		if next != nil {
			next.Snap = res.Post
		}
		mon(path[:i+1], st, next, res)
		if next == nil {
			return nil
		}
		st = next
	}
	return nil
}
