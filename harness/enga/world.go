// Package enga is Engine A: ABCI-level exploration of the real application
// (CheckTx / PrepareProposal / ProcessProposal / FinalizeBlock / Commit) with a scripted
// fake execution layer, plus the off-chain "relayer bot" bookkeeping needed to produce
// well-formed relayer transactions in any reachable state.
package enga

import (
	"bytes"
	"fmt"
	"math/big"
	"sort"
	"time"

	"github.com/btcsuite/btcd/btcutil"
	abci "github.com/cometbft/cometbft/abci/types"
	sdk "github.com/cosmos/cosmos-sdk/types"
	"github.com/ethereum/go-ethereum/common"
	"github.com/ethereum/go-ethereum/core/types/goattypes"
	bitcointypes "github.com/goatnetwork/goat/x/bitcoin/types"
	relayertypes "github.com/goatnetwork/goat/x/relayer/types"
	"verifharness/sim"
)

// Event is one item a block carries: a relayer transaction ("tx:*") or execution-layer
// requests in the payload ("req:*").
type Event struct {
	Kind string `json:"kind"`
	N    int    `json:"n,omitempty"`
	Var  string `json:"variant,omitempty"`
}

func (e Event) String() string {
	s := e.Kind
	if e.N != 0 {
		s += fmt.Sprintf(":%d", e.N)
	}
	if e.Var != "" {
		s += "/" + e.Var
	}
	return s
}

// ABlock is one explored consensus block.
type ABlock struct {
	Dt       int64   `json:"dt_s,omitempty"`
	Events   []Event `json:"events,omitempty"`
	Mode     string  `json:"mode,omitempty"` // "" honest (real PrepareProposal) | "built" harness-assembled honest proposal
	Restart  bool    `json:"restart_before,omitempty"`
	Absent   []int   `json:"absent,omitempty"`
	Abandon  int     `json:"abandoned_rounds,omitempty"` // PrepareProposal rounds prepared and dropped before the real one
	FailEth  bool    `json:"failing_eth_block,omitempty"`
	Evidence []int   `json:"evidence_against,omitempty"` // validator key indexes
	// age of that evidence relative to the block that carries it (0/0: the previous block)
	EvAgeBlocks int64 `json:"evidence_age_blocks,omitempty"`
	EvAgeSecs   int64 `json:"evidence_age_s,omitempty"`
}

func (b ABlock) String() string {
	s := ""
	for i, e := range b.Events {
		if i > 0 {
			s += "+"
		}
		s += e.String()
	}
	if s == "" {
		s = "empty"
	}
	if b.Mode != "" {
		s += "[" + b.Mode + "]"
	}
	if b.Restart {
		s = "restart;" + s
	}
	if b.Abandon > 0 {
		s += fmt.Sprintf("[abandon %d]", b.Abandon)
	}
	if b.FailEth {
		s += "[failing-eth-msg]"
	}
	if len(b.Evidence) > 0 {
		s += fmt.Sprintf("[evidence %v]", b.Evidence)
		if b.EvAgeBlocks != 0 || b.EvAgeSecs != 0 {
			s += fmt.Sprintf("[aged %d blocks %d s]", b.EvAgeBlocks, b.EvAgeSecs)
		}
	}
	if len(b.Absent) > 0 {
		s += fmt.Sprintf("[absent %v]", b.Absent)
	}
	if b.Dt > 1 {
		s += fmt.Sprintf("[dt=%d]", b.Dt)
	}
	return s
}

type batch struct {
	IDs     []uint64
	Txs     [][]byte // candidate transactions
	Open    bool
	InBlock map[int]uint64 // candidate index -> height of the voted block that contains it
}

// Bot is the off-chain knowledge of the relayer/users that the harness needs.
type Bot struct {
	Blocks    map[uint64]*sim.BtcBlock
	DepCursor [2]uint64 // next unused deposit: (height, tx index)
	Batches   map[uint64]*batch
	NextPid   uint64
	NextWid   uint64
	NextReq   uint64   // unlock / claim ids
	Pending   []uint64 // withdrawal ids believed pending
	Refunded  []uint64 // withdrawal ids already refunded (bad address or approved cancellation)
	Canceling []uint64
	NewKeys   int
	Votes     []StoredVote // every vote ever produced (C02's vote pool)
	Created   map[int]bool
}

type StoredVote struct {
	Msg      sdk.Msg
	Desc     string
	Accepted bool // a transaction carrying this vote succeeded
}

func (b *Bot) clone() *Bot {
	c := &Bot{Blocks: map[uint64]*sim.BtcBlock{}, DepCursor: b.DepCursor, Batches: map[uint64]*batch{}, NextPid: b.NextPid, NextWid: b.NextWid,
		NextReq: b.NextReq, NewKeys: b.NewKeys, Created: map[int]bool{}}
	for k, v := range b.Blocks {
		c.Blocks[k] = v
	}
	for k, v := range b.Batches {
		nb := *v
		nb.Txs = append([][]byte{}, v.Txs...)
		nb.InBlock = map[int]uint64{}
		for a, h := range v.InBlock {
			nb.InBlock[a] = h
		}
		c.Batches[k] = &nb
	}
	c.Pending = append([]uint64{}, b.Pending...)
	c.Canceling = append([]uint64{}, b.Canceling...)
	c.Refunded = append([]uint64{}, b.Refunded...)
	c.Votes = append([]StoredVote{}, b.Votes...)
	for k, v := range b.Created {
		c.Created[k] = v
	}
	return c
}

// World is a node plus the bot.
type World struct {
	N              *sim.Node
	Bot            *Bot
	Members        []sim.Member // relayer group: 0 = genesis proposer
	ValKeys        []sim.Key    // validator candidates (0.. = genesis validators)
	UserScr        []byte
	UserAdr        string
	Aux            Cloner                   // monitor-owned history state, forked with the world
	seqOff         uint64                   // voted transactions assembled earlier in the same block (when chained)
	widOff, reqOff uint64                   // ids handed out to the requests of the block being assembled
	lastNote       string                   // note about the message built last (replays: first-use | reuse)
	prov           map[uint64]*sim.BtcBlock // blocks voted by earlier transactions of the block being assembled
	// ExtraBridge: bridge parameter requests the execution layer emits with the next block, besides
	// those of the block's events (set on a fork, used by one Run)
	ExtraBridge goattypes.BridgeRequests
}

// Cloner is implemented by monitor state that travels along a history.
type Cloner interface{ Clone() Cloner }

const depositsPerBlock = 10

// Tk2 is the second locking token of configurations that register one.
var Tk2 = common.HexToAddress("0x00000000000000000000000000000000000000a2")

// NewWorld boots a chain for the configuration.
func NewWorld(cfg *sim.GenesisCfg) (*World, error) {
	n, err := sim.NewChain(cfg)
	if err != nil {
		return nil, err
	}
	// InitChain state only reaches the database with the first commit: run one empty block
	if r := n.RunBlock(&sim.Block{TimeDelta: time.Second}); r.Err != nil {
		n.CloseAll()
		return nil, fmt.Errorf("first block: %s: %w", r.Stage, r.Err)
	}
	w := &World{N: n, Bot: &Bot{Blocks: map[uint64]*sim.BtcBlock{}, Batches: map[uint64]*batch{}, NextWid: 1, NextReq: 1, Created: map[int]bool{}}}
	w.Members = append([]sim.Member{cfg.Proposer}, cfg.Voters...)
	for _, v := range cfg.Vals {
		w.ValKeys = append(w.ValKeys, v.Key)
	}
	for i := len(w.ValKeys); i < len(cfg.Vals)+2; i++ {
		w.ValKeys = append(w.ValKeys, sim.NewKey(fmt.Sprintf("cand-%d", i)))
	}
	h := btcutil.Hash160([]byte("user"))
	a, err := btcutil.NewAddressWitnessPubKeyHash(h, bitcointypes.BitcoinNetworks["regtest"])
	if err != nil {
		return nil, err
	}
	w.UserAdr, w.UserScr = a.EncodeAddress(), append([]byte{0, 20}, h...)
	w.Bot.DepCursor = [2]uint64{cfg.BtcTip + 1, 1}
	return w, nil
}

func (w *World) Close() { w.N.CloseAll() }

// Fork forks node and bot.
func (w *World) Fork() (*World, error) {
	n, err := w.N.Fork()
	if err != nil {
		return nil, err
	}
	f := &World{N: n, Bot: w.Bot.clone(), Members: w.Members, ValKeys: w.ValKeys, UserScr: w.UserScr, UserAdr: w.UserAdr}
	if w.Aux != nil {
		f.Aux = w.Aux.Clone()
	}
	return f, nil
}

// ---- state readers

func (w *World) Relayer() (relayertypes.Relayer, uint64) {
	ctx := w.N.Ctx()
	rel, err := w.N.App.RelayerKeeper.Relayer.Get(ctx)
	if err != nil {
		panic(err)
	}
	seq, err := w.N.App.RelayerKeeper.Sequence.Peek(ctx)
	if err != nil {
		panic(err)
	}
	return rel, seq
}

func (w *World) member(addr string) sim.Member {
	for _, m := range w.Members {
		if m.AddrStr() == addr {
			return m
		}
	}
	// the joiner's key is derived from its name: a registration applied outside the world's own
	// bookkeeping (a raw transaction of C19) still leaves a member the world can sign for
	if m := sim.NewMember("joiner"); m.AddrStr() == addr {
		return m
	}
	panic("unknown relayer member " + addr)
}

func (w *World) BtcTip() uint64 {
	t, err := w.N.App.BitcoinKeeper.BlockTip.Peek(w.N.Ctx())
	if err != nil {
		panic(err)
	}
	return t
}

// Vote signs a proposal with every current member (for the current sequence plus the
// offset of voted transactions already assembled for the same block).
func (w *World) Vote(method string, payload []byte) *relayertypes.Votes {
	rel, seq := w.Relayer()
	seq += w.seqOff
	vc := sim.VoteCtx{Method: method, ChainID: w.N.Cfg.ChainID, Proposer: rel.Proposer, Sequence: seq, Epoch: rel.Epoch, Payload: payload}
	signers := []sim.Member{w.member(rel.Proposer)}
	var marks []int
	for i, v := range rel.Voters {
		signers = append(signers, w.member(v))
		marks = append(marks, i)
	}
	return &relayertypes.Votes{Sequence: seq, Epoch: rel.Epoch, Voters: sim.Bitmap(marks, 8), Signature: sim.AggregateVote(signers, vc)}
}

// refBlock builds the reference Bitcoin block for height h: coinbase, deposit
// transactions, and the candidate transactions of all open withdrawal batches.
func (w *World) refBlock(h uint64) *sim.BtcBlock {
	txs := refTxs(w.N.Cfg.BtcKey, h)
	pids := make([]uint64, 0, len(w.Bot.Batches))
	for pid := range w.Bot.Batches {
		pids = append(pids, pid)
	}
	sort.Slice(pids, func(i, j int) bool { return pids[i] < pids[j] })
	for _, pid := range pids {
		b := w.Bot.Batches[pid]
		if !b.Open {
			continue
		}
		ci := len(b.Txs) - 1
		if _, done := b.InBlock[ci]; !done {
			txs = append(txs, b.Txs[ci])
		}
	}
	return sim.NewBtcBlock(h, sim.DSHA([]byte{byte(h - 1)}), txs)
}

// refTxs: the coinbase (whose second output is itself a deposit, claimable once 100 voted blocks lie
// above it) and the deposit transactions of the reference block at height h.
func refTxs(key sim.BtcKey, h uint64) [][]byte {
	cbEvm := common.BytesToAddress([]byte{byte(h), 0})
	txs := [][]byte{sim.CoinbaseTx(uint32(h), sim.BtcOut{Value: 50, Script: sim.RefSystemScript(key)}, sim.BtcOut{Value: 20000, Script: sim.RefDepositScriptV0(key, cbEvm.Bytes())})}
	for i := 1; i <= depositsPerBlock; i++ {
		evm := common.BytesToAddress([]byte{byte(h), byte(i)})
		txs = append(txs, sim.BtcTx(uint32(h*100)+uint32(i), sim.BtcOut{Value: int64(20000 + i), Script: sim.RefDepositScriptV0(key, evm.Bytes())}))
	}
	return txs
}

// NewWorldPrevoted boots a chain on which the n reference blocks above the configured tip are
// voted already at genesis (so that the coinbase of the lowest one is mature from the start).
func NewWorldPrevoted(cfg *sim.GenesisCfg, n int) (*World, error) {
	first := cfg.BtcTip + 1
	var blocks []*sim.BtcBlock
	var hashes [][]byte
	for i := 0; i < n; i++ {
		h := first + uint64(i)
		b := sim.NewBtcBlock(h, sim.DSHA([]byte{byte(h - 1)}), refTxs(cfg.BtcKey, h))
		blocks = append(blocks, b)
		hashes = append([][]byte{b.Hash()}, hashes...) // from the tip downward
	}
	cfg.BtcHashes = append(hashes, cfg.BtcHashes...)
	cfg.BtcTip += uint64(n)
	w, err := NewWorld(cfg)
	if err != nil {
		return nil, err
	}
	for _, b := range blocks {
		w.Bot.Blocks[b.Height] = b
	}
	w.Bot.DepCursor = [2]uint64{first, 1}
	return w, nil
}

// BuildTx turns a "tx:*" event into a relayer message (nil if not enabled in this state).
// commit is called when the transaction turned out successful in a finalised block.
func (w *World) BuildMsg(e Event) (msg sdk.Msg, commit func()) {
	rel, _ := w.Relayer()
	switch e.Kind {
	case "tx:hashes":
		tip := w.BtcTip()
		var hashes [][]byte
		blocks := map[uint64]*sim.BtcBlock{}
		for i := 0; i < e.N; i++ {
			b := w.refBlock(tip + 1 + uint64(i))
			blocks[b.Height] = b
			if e.Var == "" && w.prov != nil {
				w.prov[b.Height] = b
			}
			hashes = append(hashes, b.Hash())
		}
		start := tip + 1
		if e.Var == "gap" {
			start = tip + 2
		}
		if e.Var == "rewrite" {
			start = tip
		}
		m := &bitcointypes.MsgNewBlockHashes{Proposer: rel.Proposer, StartBlockNumber: start, BlockHash: hashes}
		m.Vote = w.Vote(m.MethodName(), m.VoteSigDoc())
		if e.Var == "chained" || e.Var == "" || e.Var == "empty-list" {
			w.Bot.Votes = append(w.Bot.Votes, StoredVote{Msg: m, Desc: fmt.Sprintf("hashes@seq%d", m.Vote.Sequence)})
		}
		if e.Var == "chained" {
			w.seqOff++
		}
		return m, func() {
			for h, b := range blocks {
				w.Bot.Blocks[h] = b
				// candidate transactions included in this block become provable
				for _, bt := range w.Bot.Batches {
					for ci, tx := range bt.Txs {
						for _, btx := range b.Txs {
							if bytes.Equal(tx, btx) {
								bt.InBlock[ci] = h
							}
						}
					}
				}
			}
		}
	case "tx:deposits-bad-headers":
		// a batch over three heights: genuine, header not hashing to the voted hash, unvoted height
		tip := w.BtcTip()
		b0, ok0 := w.Bot.Blocks[tip-1]
		b1, ok1 := w.Bot.Blocks[tip]
		if !ok0 || !ok1 {
			return nil, nil
		}
		mk := func(b *sim.BtcBlock, height uint64, i int) *bitcointypes.Deposit {
			evm := common.BytesToAddress([]byte{byte(b.Height), byte(i)})
			return &bitcointypes.Deposit{Version: 0, BlockNumber: height, TxIndex: uint32(i), NoWitnessTx: b.Txs[i], OutputIndex: 0,
				IntermediateProof: b.Proof(i), EvmAddress: evm.Bytes(), RelayerPubkey: w.N.Cfg.BtcKey.Public()}
		}
		bad := append([]byte{}, b1.Header...)
		bad[70] ^= 1
		m := &bitcointypes.MsgNewDeposits{Proposer: rel.Proposer,
			Deposits:     []*bitcointypes.Deposit{mk(b0, b0.Height, 9), mk(b1, b1.Height, 9), mk(b1, tip+7, 8)},
			BlockHeaders: []*bitcointypes.BlockHeader{{Height: b0.Height, Raw: b0.Header}, {Height: b1.Height, Raw: bad}, {Height: tip + 7, Raw: b1.Header}}}
		return m, func() {}
	case "tx:deposits":
		var deps []*bitcointypes.Deposit
		hdrs := map[uint64]*bitcointypes.BlockHeader{}
		if e.Var == "mature-coinbase" {
			// the deposit made by the coinbase of the block that has exactly 100 voted blocks above it
			tip := w.BtcTip()
			if tip < 100 {
				return nil, nil
			}
			b, ok := w.Bot.Blocks[tip-100]
			if !ok {
				return nil, nil
			}
			evm := common.BytesToAddress([]byte{byte(b.Height), 0})
			d := &bitcointypes.Deposit{Version: 0, BlockNumber: b.Height, TxIndex: 0, NoWitnessTx: b.Txs[0], OutputIndex: 1,
				IntermediateProof: b.Proof(0), EvmAddress: evm.Bytes(), RelayerPubkey: w.N.Cfg.BtcKey.Public()}
			return &bitcointypes.MsgNewDeposits{Proposer: rel.Proposer, Deposits: []*bitcointypes.Deposit{d},
				BlockHeaders: []*bitcointypes.BlockHeader{{Height: b.Height, Raw: b.Header}}}, func() {}
		}
		cur := w.Bot.DepCursor
		for len(deps) < e.N {
			b, ok := w.Bot.Blocks[cur[0]]
			if !ok {
				break
			}
			if cur[1] > depositsPerBlock {
				cur = [2]uint64{cur[0] + 1, 1}
				continue
			}
			evm := common.BytesToAddress([]byte{byte(cur[0]), byte(cur[1])})
			deps = append(deps, &bitcointypes.Deposit{Version: 0, BlockNumber: cur[0], TxIndex: uint32(cur[1]), NoWitnessTx: b.Txs[cur[1]], OutputIndex: 0,
				IntermediateProof: b.Proof(int(cur[1])), EvmAddress: evm.Bytes(), RelayerPubkey: w.N.Cfg.BtcKey.Public()})
			hdrs[cur[0]] = &bitcointypes.BlockHeader{Height: cur[0], Raw: b.Header}
			cur[1]++
		}
		if len(deps) == 0 {
			return nil, nil
		}
		if e.Var == "twice-listed" {
			cp := *deps[0]
			deps = append(deps, &cp)
		}
		m := &bitcointypes.MsgNewDeposits{Proposer: rel.Proposer, Deposits: deps}
		hs := make([]uint64, 0, len(hdrs))
		for h := range hdrs {
			hs = append(hs, h)
		}
		sort.Slice(hs, func(i, j int) bool { return hs[i] < hs[j] })
		for _, h := range hs {
			m.BlockHeaders = append(m.BlockHeaders, hdrs[h])
		}
		return m, func() { w.Bot.DepCursor = cur }
	case "tx:process":
		if len(w.Bot.Pending) == 0 {
			return nil, nil
		}
		n := e.N
		if n > len(w.Bot.Pending) {
			n = len(w.Bot.Pending)
		}
		ids := append([]uint64{}, w.Bot.Pending[:n]...)
		if e.Var == "one-id-already-processing" {
			// the quorum signed a list whose last id went into an earlier batch in the meantime: the
			// vote is genuine, the message must fail as a whole after the vote was verified
			var closed []uint64
			for _, b := range w.Bot.Batches {
				closed = append(closed, b.IDs...)
			}
			if len(closed) == 0 {
				return nil, nil
			}
			sort.Slice(closed, func(i, j int) bool { return closed[i] < closed[j] })
			ids = append(ids, closed[0])
		}
		var outs []sim.BtcOut
		for range ids {
			outs = append(outs, sim.BtcOut{Value: 90000, Script: w.UserScr})
		}
		tx := sim.BtcTx(uint32(50000+w.Bot.NextPid), outs...)
		m := &bitcointypes.MsgProcessWithdrawal{Proposer: rel.Proposer, Id: ids, NoWitnessTx: tx, TxFee: uint64(len(tx))}
		m.Vote = w.Vote(m.MethodName(), m.VoteSigDoc())
		if e.Var == "ids-permuted-after-the-vote" {
			// the vote was collected for the list in issue order; what is submitted lists the same ids
			// the other way round (which output pays which withdrawal is part of what was voted)
			if len(ids) < 2 {
				return nil, nil
			}
			m.Id = append([]uint64{}, ids...)
			for i, j := 0, len(m.Id)-1; i < j; i, j = i+1, j-1 {
				m.Id[i], m.Id[j] = m.Id[j], m.Id[i]
			}
			return m, func() {}
		}
		if e.Var == "one-id-already-processing" {
			return m, func() {}
		}
		return m, func() {
			w.Bot.Batches[w.Bot.NextPid] = &batch{IDs: ids, Txs: [][]byte{tx}, Open: true, InBlock: map[int]uint64{}}
			w.Bot.NextPid++
			w.Bot.Pending = without(w.Bot.Pending, ids)
			w.Bot.Canceling = without(w.Bot.Canceling, ids)
		}
	case "tx:finalize":
		// the oldest open batch whose latest candidate is in a voted block (or in a block voted
		// by an earlier transaction of the block being assembled)
		pids := make([]uint64, 0)
		for pid, b := range w.Bot.Batches {
			if b.Open {
				pids = append(pids, pid)
			}
		}
		sort.Slice(pids, func(i, j int) bool { return pids[i] < pids[j] })
		if e.Var == "newest" {
			// bitcoin confirms the batches in any order: the youngest one first
			sort.Slice(pids, func(i, j int) bool { return pids[i] > pids[j] })
		}
		for _, pid := range pids {
			b := w.Bot.Batches[pid]
			ci := len(b.Txs) - 1
			var blk *sim.BtcBlock
			if h, ok := b.InBlock[ci]; ok {
				blk = w.Bot.Blocks[h]
			} else {
				hs := make([]uint64, 0, len(w.prov))
				for h := range w.prov {
					hs = append(hs, h)
				}
				sort.Slice(hs, func(i, j int) bool { return hs[i] < hs[j] })
				for _, h := range hs {
					for _, t := range w.prov[h].Txs {
						if bytes.Equal(t, b.Txs[ci]) && blk == nil {
							blk = w.prov[h]
						}
					}
				}
			}
			if blk == nil {
				continue
			}
			pos := -1
			for i, t := range blk.Txs {
				if bytes.Equal(t, b.Txs[ci]) {
					pos = i
				}
			}
			m := &bitcointypes.MsgFinalizeWithdrawal{Proposer: rel.Proposer, Pid: pid, Txid: sim.DSHA(b.Txs[ci]), BlockNumber: blk.Height, TxIndex: uint32(pos), IntermediateProof: blk.Proof(pos), BlockHeader: blk.Header}
			if e.Var == "stale-header" {
				// the header of a competing block at that height: well-formed, but not the voted one
				h := append([]byte{}, blk.Header...)
				h[70] ^= 1
				m.BlockHeader = h
				return m, func() {}
			}
			return m, func() { b.Open = false }
		}
		return nil, nil
	case "tx:replace":
		pids := make([]uint64, 0)
		for pid, b := range w.Bot.Batches {
			if b.Open {
				pids = append(pids, pid)
			}
		}
		if len(pids) == 0 {
			return nil, nil
		}
		sort.Slice(pids, func(i, j int) bool { return pids[i] < pids[j] })
		pid := pids[0]
		b := w.Bot.Batches[pid]
		var outs []sim.BtcOut
		for range b.IDs {
			outs = append(outs, sim.BtcOut{Value: 89000, Script: w.UserScr})
		}
		tx := sim.BtcTx(uint32(60000+pid*16+uint64(len(b.Txs))), outs...)
		m := &bitcointypes.MsgReplaceWithdrawal{Proposer: rel.Proposer, Pid: pid, NewNoWitnessTx: tx, NewTxFee: uint64(len(tx)) + uint64(len(b.Txs))}
		m.Vote = w.Vote(m.MethodName(), m.VoteSigDoc())
		return m, func() { b.Txs = append(b.Txs, tx) }
	case "tx:approve":
		if e.Var == "again" {
			// a late / duplicate approval of withdrawals that were refunded already
			if len(w.Bot.Refunded) == 0 {
				return nil, nil
			}
			ids := append([]uint64{}, w.Bot.Refunded...)
			if len(ids) > 32 {
				ids = ids[:32]
			}
			return &bitcointypes.MsgApproveCancellation{Proposer: rel.Proposer, Id: ids}, func() {}
		}
		if len(w.Bot.Canceling) == 0 {
			return nil, nil
		}
		ids := append([]uint64{}, w.Bot.Canceling...)
		if len(ids) > 32 {
			ids = ids[:32]
		}
		if e.Var == "twice-listed" {
			n := len(ids)
			return &bitcointypes.MsgApproveCancellation{Proposer: rel.Proposer, Id: append(append([]uint64{}, ids...), ids[0])}, func() {
				w.Bot.Canceling = w.Bot.Canceling[n:]
				w.Bot.Refunded = append(w.Bot.Refunded, ids...)
			}
		}
		if e.Var == "reversed" {
			// the relayer lists the ids the other way round: refunds are queued, numbered and handed
			// over in the order of the message, not of the ids
			for i, j := 0, len(ids)-1; i < j; i, j = i+1, j-1 {
				ids[i], ids[j] = ids[j], ids[i]
			}
		}
		return &bitcointypes.MsgApproveCancellation{Proposer: rel.Proposer, Id: ids}, func() {
			w.Bot.Canceling = w.Bot.Canceling[len(ids):]
			w.Bot.Refunded = append(w.Bot.Refunded, ids...)
		}
	case "tx:newpubkey":
		k := sim.NewBtcKey(fmt.Sprintf("rotated-%d", w.Bot.NewKeys), false)
		if e.Var == "existing" {
			k = w.N.Cfg.BtcKey
		}
		m := &bitcointypes.MsgNewPubkey{Proposer: rel.Proposer, Pubkey: k.Public()}
		m.Vote = w.Vote(m.MethodName(), m.VoteSigDoc())
		if e.Var == "chained" {
			w.seqOff++
		}
		return m, func() { w.Bot.NewKeys++ }
	case "tx:consolidation":
		tx := sim.BtcTx(uint32(88000+len(w.Bot.Votes)), sim.BtcOut{Value: 123456, Script: sim.RefSystemScript(w.N.Cfg.BtcKey)})
		m := &bitcointypes.MsgNewConsolidation{Proposer: rel.Proposer, NoWitnessTx: tx}
		m.Vote = w.Vote(m.MethodName(), m.VoteSigDoc())
		w.Bot.Votes = append(w.Bot.Votes, StoredVote{Msg: m, Desc: fmt.Sprintf("consolidation@seq%d", m.Vote.Sequence)})
		idx := len(w.Bot.Votes) - 1
		if e.Var == "withhold" {
			return nil, nil // the vote exists (it was collected) but is not submitted now
		}
		return m, func() { w.Bot.Votes[idx].Accepted = true }
	case "tx:replay-consolidation":
		for i := len(w.Bot.Votes) - 1; i >= 0; i-- {
			if old, ok := w.Bot.Votes[i].Msg.(*bitcointypes.MsgNewConsolidation); ok {
				m := &bitcointypes.MsgNewConsolidation{Proposer: old.Proposer, NoWitnessTx: old.NoWitnessTx,
					Vote: &relayertypes.Votes{Sequence: old.Vote.Sequence, Epoch: old.Vote.Epoch, Voters: old.Vote.Voters, Signature: old.Vote.Signature}}
				_, seq := w.Relayer()
				// presenting a collected vote for the first time in exactly the context it was signed
				// for is a legitimate use, anything else is a reuse
				w.lastNote = "reuse"
				if !w.Bot.Votes[i].Accepted && old.Vote.Sequence == seq+w.seqOff && old.Vote.Epoch == rel.Epoch && old.Proposer == rel.Proposer && len(old.Vote.Voters) >= 0 && sameMembers(w, old) {
					w.lastNote = "first-use"
				}
				if e.Var == "rewrite-context" {
					if m.Vote.Sequence != seq || m.Vote.Epoch != rel.Epoch || m.Proposer != rel.Proposer {
						w.lastNote = "reuse"
					}
					m.Vote.Sequence, m.Vote.Epoch, m.Proposer = seq, rel.Epoch, rel.Proposer
				}
				idx := i
				return m, func() { w.Bot.Votes[idx].Accepted = true }
			}
		}
		return nil, nil
	case "tx:replay":
		// re-present a vote produced earlier in this history
		var pool []StoredVote
		for _, v := range w.Bot.Votes {
			if _, ok := v.Msg.(*bitcointypes.MsgNewBlockHashes); ok {
				pool = append(pool, v)
			}
		}
		if len(pool) == 0 {
			return nil, nil
		}
		pick := pool[len(pool)-1]
		if e.N == 1 {
			pick = pool[0]
		}
		old := pick.Msg.(*bitcointypes.MsgNewBlockHashes)
		m := &bitcointypes.MsgNewBlockHashes{Proposer: old.Proposer, StartBlockNumber: old.StartBlockNumber, BlockHash: old.BlockHash,
			Vote: &relayertypes.Votes{Sequence: old.Vote.Sequence, Epoch: old.Vote.Epoch, Voters: old.Vote.Voters, Signature: old.Vote.Signature}}
		_, seq := w.Relayer()
		switch e.Var {
		case "unchanged":
		case "rewrite-context":
			m.Vote.Sequence, m.Vote.Epoch, m.Proposer = seq, rel.Epoch, rel.Proposer
		case "rewrite-context+start":
			m.Vote.Sequence, m.Vote.Epoch, m.Proposer = seq, rel.Epoch, rel.Proposer
			m.StartBlockNumber = w.BtcTip() + 1
		case "other-payload":
			m.Vote.Sequence, m.Vote.Epoch, m.Proposer = seq, rel.Epoch, rel.Proposer
			m.StartBlockNumber = w.BtcTip() + 1
			m.BlockHash = [][]byte{sim.DSHA([]byte("another block"))}
		case "other-action":
			k := sim.NewBtcKey("replayed-vote-key", false)
			return &bitcointypes.MsgNewPubkey{Proposer: rel.Proposer, Pubkey: k.Public(), Vote: &relayertypes.Votes{Sequence: seq, Epoch: rel.Epoch, Voters: old.Vote.Voters, Signature: old.Vote.Signature}}, func() {}
		}
		return m, func() {}
	case "tx:newvoter":
		m := sim.NewMember("joiner")
		ctx := w.N.Ctx()
		rec, err := w.N.App.RelayerKeeper.Voters.Get(ctx, m.AddrStr())
		if err != nil {
			return nil, nil
		}
		req := relayertypes.NewOnBoardingVoterRequest(rec.Height, m.Addr(), sim.SHA256(m.BLS.PK))
		sigMsg := relayertypes.VoteSignDoc(req.MethodName(), w.N.Cfg.ChainID, rel.Proposer, 0, rel.Epoch, req.SignDoc())
		return &relayertypes.MsgNewVoterRequest{Proposer: rel.Proposer, VoterBlsKey: m.BLS.PK, VoterTxKey: m.Pub().Key,
			VoterTxKeyProof: m.SignECDSA64(sigMsg), VoterBlsKeyProof: m.BLS.Sign(sigMsg)}, func() { w.Members = append(w.Members[:len(w.Members):len(w.Members)], m) }
	case "tx:accept":
		return &relayertypes.MsgAcceptProposerRequest{Proposer: rel.Proposer, Epoch: rel.Epoch}, func() {}
	}
	panic("unknown tx event " + e.Kind)
}

// ApplyReq adds the requests of a "req:*" event to the fake execution layer's next payload.
// The returned function updates the bot when the block's execution message succeeded.
func (w *World) ApplyReq(e Event) (commit func()) {
	el := w.N.EL
	switch e.Kind {
	case "req:withdraw":
		var ids []uint64
		base := w.Bot.NextWid + w.widOff
		w.widOff += uint64(e.N)
		for i := 0; i < e.N; i++ {
			id := base + uint64(i)
			addr := w.UserAdr
			if e.Var == "bad-address" {
				addr = "undecodable"
			}
			el.NextBridge.Withdraws = append(el.NextBridge.Withdraws, &goattypes.WithdrawalRequest{Id: id, Amount: 100000, TxPrice: 10, Address: addr})
			ids = append(ids, id)
		}
		return func() {
			w.Bot.NextWid += uint64(e.N)
			if e.Var != "bad-address" {
				w.Bot.Pending = append(w.Bot.Pending, ids...)
			} else {
				w.Bot.Refunded = append(w.Bot.Refunded, ids...)
			}
		}
	case "req:cancel":
		ids := append([]uint64{}, w.Bot.Pending...)
		for _, id := range ids {
			el.NextBridge.Cancel1s = append(el.NextBridge.Cancel1s, &goattypes.Cancel1Request{Id: id})
		}
		return func() {
			w.Bot.Canceling = append(w.Bot.Canceling, ids...)
			w.Bot.Pending = nil
		}
	case "req:claim":
		base := w.Bot.NextReq + w.reqOff
		w.reqOff += uint64(e.N)
		for i := 0; i < e.N; i++ {
			el.NextLocking.Claims = append(el.NextLocking.Claims, &goattypes.ClaimRequest{Id: base + uint64(i), Validator: w.ValKeys[0].EthAddr(), Recipient: common.BytesToAddress([]byte{0xcc})})
		}
		return func() { w.Bot.NextReq += uint64(e.N) }
	case "req:unlock":
		base := w.Bot.NextReq + w.reqOff
		w.reqOff += uint64(e.N)
		for i := 0; i < e.N; i++ {
			el.NextLocking.Unlocks = append(el.NextLocking.Unlocks, &goattypes.UnlockRequest{Id: base + uint64(i), Validator: w.ValKeys[0].EthAddr(),
				Recipient: common.BytesToAddress([]byte{0xee}), Token: common.Address{}, Amount: big.NewInt(1)})
		}
		return func() { w.Bot.NextReq += uint64(e.N) }
	case "req:lock":
		amt := new(big.Int).Mul(big.NewInt(int64(e.N)), big.NewInt(1e18))
		el.NextLocking.Locks = append(el.NextLocking.Locks, &goattypes.LockRequest{Validator: w.ValKeys[0].EthAddr(), Token: common.Address{}, Amount: amt})
		return func() {}
	case "req:grant":
		el.NextLocking.Grants = append(el.NextLocking.Grants, &goattypes.GrantRequest{Amount: big.NewInt(int64(e.N))})
		return func() {}
	case "req:create":
		k := w.ValKeys[len(w.N.Cfg.Vals)]
		el.NextLocking.Creates = append(el.NextLocking.Creates, &goattypes.CreateRequest{Validator: k.EthAddr(), Pubkey: k.Uncompressed()})
		el.NextLocking.Locks = append(el.NextLocking.Locks, &goattypes.LockRequest{Validator: k.EthAddr(), Token: common.Address{}, Amount: new(big.Int).Mul(big.NewInt(int64(e.N)), big.NewInt(1e18))})
		return func() {}
	case "req:unlock-big":
		el.NextLocking.Unlocks = append(el.NextLocking.Unlocks, &goattypes.UnlockRequest{Id: w.Bot.NextReq + w.reqOff, Validator: w.ValKeys[e.N].EthAddr(),
			Recipient: common.BytesToAddress([]byte{0xee}), Token: common.Address{}, Amount: new(big.Int).Mul(big.NewInt(4), big.NewInt(1e18))})
		w.reqOff++
		return func() { w.Bot.NextReq++ }
	case "req:params":
		switch e.Var {
		case "rate0-cap5":
			el.NextBridge.DepositTax = append(el.NextBridge.DepositTax, &goattypes.DepositTaxRequest{Rate: 0, Max: 5})
		case "cap-huge":
			el.NextBridge.DepositTax = append(el.NextBridge.DepositTax, &goattypes.DepositTaxRequest{Rate: 20, Max: 1 << 40})
		case "rate-20-cap-1000":
			el.NextBridge.DepositTax = append(el.NextBridge.DepositTax, &goattypes.DepositTaxRequest{Rate: 20, Max: 1000})
		case "min-1001":
			el.NextBridge.MinDeposit = append(el.NextBridge.MinDeposit, &goattypes.MinDepositRequest{Satoshi: 1001})
		case "conf-6":
			el.NextBridge.Confirmation = append(el.NextBridge.Confirmation, &goattypes.ConfirmationNumberRequest{Number: 6})
		}
		return func() {}
	case "req:threshold":
		// the threshold of the native token, in whole units (0: no token has a threshold any more)
		el.NextLocking.UpdateThresholds = append(el.NextLocking.UpdateThresholds, &goattypes.UpdateTokenThresholdRequest{Token: common.Address{}, Threshold: new(big.Int).Mul(big.NewInt(int64(e.N)), big.NewInt(1e18))})
		return func() {}
	case "req:weight":
		el.NextLocking.UpdateWeights = append(el.NextLocking.UpdateWeights, &goattypes.UpdateTokenWeightRequest{Token: common.Address{}, Weight: uint64(e.N)})
		return func() {}
	case "req:lock2":
		el.NextLocking.Locks = append(el.NextLocking.Locks, &goattypes.LockRequest{Validator: w.ValKeys[1].EthAddr(), Token: common.Address{}, Amount: new(big.Int).Mul(big.NewInt(int64(e.N)), big.NewInt(1e18))})
		return func() {}
	case "req:unknown-token-lock":
		el.NextLocking.Locks = append(el.NextLocking.Locks, &goattypes.LockRequest{Validator: w.ValKeys[0].EthAddr(), Token: common.BytesToAddress([]byte{0x77}), Amount: big.NewInt(5)})
		return func() {}
	case "req:create-tk2":
		k := w.ValKeys[len(w.N.Cfg.Vals)+1]
		el.NextLocking.Creates = append(el.NextLocking.Creates, &goattypes.CreateRequest{Validator: k.EthAddr(), Pubkey: k.Uncompressed()})
		el.NextLocking.Locks = append(el.NextLocking.Locks, &goattypes.LockRequest{Validator: k.EthAddr(), Token: Tk2, Amount: new(big.Int).Mul(big.NewInt(int64(e.N)), big.NewInt(1e18))})
		return func() {}
	case "req:weight-tk2":
		el.NextLocking.UpdateWeights = append(el.NextLocking.UpdateWeights, &goattypes.UpdateTokenWeightRequest{Token: Tk2, Weight: uint64(e.N)})
		return func() {}
	case "req:unknown-validator-lock":
		el.NextLocking.Locks = append(el.NextLocking.Locks, &goattypes.LockRequest{Validator: common.BytesToAddress([]byte{0xde, 0xad}), Token: common.Address{}, Amount: big.NewInt(5)})
		return func() {}
	case "req:addvoter":
		m := sim.NewMember("joiner")
		el.NextRelayer.Adds = append(el.NextRelayer.Adds, &goattypes.AddVoterRequest{Voter: common.BytesToAddress(m.Addr()), Pubkey: common.BytesToHash(sim.SHA256(m.BLS.PK))})
		return func() {}
	case "req:removevoter":
		rel, _ := w.Relayer()
		if len(rel.Voters) > 0 {
			pick := []string{rel.Voters[len(rel.Voters)-1]}
			switch e.Var {
			case "first":
				pick = []string{rel.Voters[0]}
			case "two":
				pick = []string{rel.Voters[0], rel.Voters[len(rel.Voters)-1]}
			case "proposer":
				// the member that holds the proposer seat is removed (the first voter steps in at the
				// end of the electing period, without an election)
				pick = []string{rel.Proposer}
			}
			for _, v := range pick {
				a, _ := sdk.AccAddressFromBech32(v)
				el.NextRelayer.Removes = append(el.NextRelayer.Removes, &goattypes.RemoveVoterRequest{Voter: common.BytesToAddress(a)})
			}
		}
		return func() {}
	}
	panic("unknown req event " + e.Kind)
}

// Result is everything observable about one executed ABlock.
type Result struct {
	*sim.BlockResult
	Block               ABlock
	RelayerTxs          [][]byte
	EthOK               bool // the execution-block message succeeded
	TxOK                []bool
	HeightBefore        int64
	Skipped             []string // events not enabled in this state
	SimBlock            *sim.Block
	Notes               []string // per built relayer tx: harness note (replays: first-use | reuse)
	AbandonedProposals  [][][]byte
	AbandonedSysTxs     [][][]byte
	AbandonChangedState bool
	commitBot           func(fr *abci.ResponseFinalizeBlock)
}

// Adopt records a FinalizeBlock response obtained by re-running the block outside Run
// (fault-injection retries) and updates the bot accordingly.
func (r *Result) Adopt(fr *abci.ResponseFinalizeBlock) {
	r.Finalize = fr
	r.Err = nil
	r.commitBot(fr)
}

// Run executes one explored block on the world (honest proposer = the node's validator).
func (w *World) Run(b ABlock) *Result {
	res := &Result{Block: b, HeightBefore: w.N.Height}
	if b.Restart {
		if err := w.N.Restart(); err != nil {
			res.BlockResult = &sim.BlockResult{Err: err, Stage: "restart"}
			return res
		}
	}
	w.N.EL.ClearRequests()
	defer func() {
		// the execution layer emits each request once: with the block that is committed
		if res.BlockResult != nil && res.Err == nil && res.Finalize != nil {
			w.N.EL.ClearRequests()
		}
	}()
	w.widOff, w.reqOff, w.seqOff = 0, 0, 0
	w.prov = map[uint64]*sim.BtcBlock{}
	var commits []func()
	var reqCommits []func()
	var seqOff uint64
	rel, _ := w.Relayer()
	signer := w.member(rel.Proposer)
	for _, e := range b.Events {
		if len(e.Kind) > 4 && e.Kind[:4] == "req:" {
			reqCommits = append(reqCommits, w.ApplyReq(e))
			continue
		}
		w.lastNote = ""
		msg, commit := w.BuildMsg(e)
		if msg == nil {
			res.Skipped = append(res.Skipped, e.String())
			continue
		}
		res.Notes = append(res.Notes, w.lastNote)
		tx := w.N.SignFor(signer.Key, seqOff, 0, msg)
		seqOff++
		res.RelayerTxs = append(res.RelayerTxs, tx)
		commits = append(commits, commit)
	}
	w.N.EL.NextBridge.DepositTax = append(w.N.EL.NextBridge.DepositTax, w.ExtraBridge.DepositTax...)
	w.N.EL.NextBridge.Confirmation = append(w.N.EL.NextBridge.Confirmation, w.ExtraBridge.Confirmation...)
	w.N.EL.NextBridge.MinDeposit = append(w.N.EL.NextBridge.MinDeposit, w.ExtraBridge.MinDeposit...)
	w.ExtraBridge = goattypes.BridgeRequests{}
	if b.FailEth {
		// a request that makes the execution-block message fail in the handler
		w.N.EL.NextLocking.Locks = append(w.N.EL.NextLocking.Locks, &goattypes.LockRequest{Validator: common.BytesToAddress([]byte{0xde, 0xad}), Token: common.Address{}, Amount: big.NewInt(5)})
	}
	blk := &sim.Block{TimeDelta: time.Duration(max64(b.Dt, 1)) * time.Second}
	if len(b.Absent) > 0 {
		blk.Absent = map[string]bool{}
		for _, i := range b.Absent {
			blk.Absent[string(w.ValKeys[i].Addr())] = true
		}
	}
	for _, i := range b.Evidence {
		blk.Misbehavior = append(blk.Misbehavior, abci.Misbehavior{Type: abci.MisbehaviorType_DUPLICATE_VOTE,
			Validator: abci.Validator{Address: w.ValKeys[i].Addr(), Power: 1}, Height: w.N.Height - b.EvAgeBlocks, Time: w.N.Time.Add(-time.Duration(b.EvAgeSecs) * time.Second), TotalVotingPower: 10})
	}
	if b.Mode == "built" {
		ethTx, _, err := w.N.BuildEthBlockTx(sim.EthBlockOpts{})
		if err != nil {
			res.BlockResult = &sim.BlockResult{Err: err, Stage: "build"}
			return res
		}
		blk.Txs = append([][]byte{ethTx}, res.RelayerTxs...)
	} else {
		// The transactions go straight into the application mempool: a freshly constructed
		// App (every fork is one) runs CheckTx at height 0 until its first commit, where the
		// SDK's signature check assumes account number 0 (an SDK quirk outside the properties).
		// Admission through CheckTx is checked by C10 on a node that has committed blocks.
		for _, tx := range res.RelayerTxs {
			if err := w.N.InsertMempool(tx); err != nil {
				res.BlockResult = &sim.BlockResult{Err: fmt.Errorf("mempool insert failed: %v", err), Stage: "mempool"}
				return res
			}
		}
		blk.MempoolTxs = res.RelayerTxs
		for i := 0; i < b.Abandon; i++ {
			before := w.N.DumpStores(w.N.Ctx()).Hash()
			w.N.EL.ResetCalls()
			pp, err := w.N.Prepare(blk)
			if err != nil {
				res.BlockResult = &sim.BlockResult{Err: err, Stage: "abandoned-prepare"}
				return res
			}
			res.AbandonedProposals = append(res.AbandonedProposals, pp.Txs)
			for _, c := range w.N.EL.Calls() {
				if c.Method == "forkchoiceUpdatedV3" && c.HasAttrs {
					res.AbandonedSysTxs = append(res.AbandonedSysTxs, c.GoatTxs)
				}
			}
			if w.N.DumpStores(w.N.Ctx()).Hash() != before {
				res.AbandonChangedState = true
			}
		}
	}
	res.SimBlock = blk
	res.commitBot = func(fr *abci.ResponseFinalizeBlock) {
		res.TxOK = nil
		for i, tr := range fr.TxResults {
			ok := tr.Code == 0
			if i == 0 {
				res.EthOK = ok
				if ok {
					for _, c := range reqCommits {
						c()
					}
				}
				continue
			}
			res.TxOK = append(res.TxOK, ok)
		}
		for i, ok := range res.TxOK {
			if ok && i < len(commits) {
				commits[i]()
			}
		}
	}
	res.BlockResult = w.N.RunBlock(blk)
	if res.Err != nil || res.Finalize == nil {
		return res
	}
	res.commitBot(res.Finalize)
	return res
}

// sameMembers: the vote was signed by the members that are still the current group (votes are
// collected from all members, so a membership change invalidates it).
func sameMembers(w *World, old *bitcointypes.MsgNewConsolidation) bool {
	rel, _ := w.Relayer()
	return sim.Bitmap(marksUpTo(len(rel.Voters)), 8)[0] == old.Vote.Voters[0]
}

func marksUpTo(n int) []int {
	var m []int
	for i := 0; i < n; i++ {
		m = append(m, i)
	}
	return m
}

func without(list, drop []uint64) []uint64 {
	var out []uint64
	for _, x := range list {
		keep := true
		for _, d := range drop {
			if d == x {
				keep = false
			}
		}
		if keep {
			out = append(out, x)
		}
	}
	return out
}

func max64(a, b int64) int64 {
	if a > b {
		return a
	}
	return b
}

var _ = abci.CodeTypeOK
