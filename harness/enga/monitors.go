package enga

import (
	"bytes"
	"fmt"

	"github.com/ethereum/go-ethereum/common"
	goattypes "github.com/goatnetwork/goat/x/goat/types"
	"verifharness/sim"
)

// HeadInfo is the recorded execution head and beacon root of a committed state.
type HeadInfo struct {
	Block    goattypes.ExecutionPayload
	Beacon   []byte
	LastHash []byte
	Height   int64
}

func (w *World) Head() HeadInfo {
	ctx := w.N.Ctx()
	b, err := w.N.App.GoatKeeper.Block.Get(ctx)
	if err != nil {
		panic(err)
	}
	br, err := w.N.App.GoatKeeper.BeaconRoot.Get(ctx)
	if err != nil {
		panic(err)
	}
	return HeadInfo{Block: b, Beacon: br, LastHash: bytes.Clone(w.N.LastHash), Height: w.N.Height}
}

// CheckHead is the C09 monitor for one finalised block: the head changes only by a valid
// child proposed by the block's proposer, and the engine is told exactly the recorded head.
func CheckHead(pre HeadInfo, child *World, res *Result) []string {
	var bad []string
	if res.Finalize == nil || res.Err != nil {
		return nil
	}
	post := child.Head()
	changed := !bytes.Equal(pre.Block.BlockHash, post.Block.BlockHash)
	prop := child.N.NodeAddr()
	if changed {
		p := post.Block
		if !bytes.Equal(p.ParentHash, pre.Block.BlockHash) || p.BlockNumber != pre.Block.BlockNumber+1 {
			bad = append(bad, fmt.Sprintf("head-not-a-child: %x/%d -> parent %x number %d", pre.Block.BlockHash, pre.Block.BlockNumber, p.ParentHash, p.BlockNumber))
		}
		if !bytes.Equal(p.FeeRecipient, prop) {
			bad = append(bad, fmt.Sprintf("head-fee-recipient-not-proposer: %x vs %x", p.FeeRecipient, prop))
		}
		if p.BlobGasUsed != 0 {
			bad = append(bad, "head-with-blob-gas")
		}
		if !bytes.Equal(p.BeaconRoot, pre.Beacon) {
			bad = append(bad, fmt.Sprintf("head-beacon-root-not-recorded-root: %x vs %x", p.BeaconRoot, pre.Beacon))
		}
		if !bytes.Equal(post.Beacon, child.N.LastHash) {
			bad = append(bad, fmt.Sprintf("beacon-root-not-finalising-block-hash: %x vs %x", post.Beacon, child.N.LastHash))
		}
		if !res.EthOK {
			bad = append(bad, "head-moved-although-the-execution-block-message-failed")
		}
	} else {
		if res.EthOK {
			bad = append(bad, "execution-block-message-succeeded-but-head-unchanged")
		}
		if !bytes.Equal(post.Beacon, pre.Beacon) {
			bad = append(bad, "beacon-root-changed-without-head")
		}
	}
	// the engine is told exactly the recorded head at the end of the block
	calls := res.Calls
	if len(calls) < 2 {
		bad = append(bad, fmt.Sprintf("engine-not-notified: %d calls", len(calls)))
		return bad
	}
	np, fcu := calls[len(calls)-2], calls[len(calls)-1]
	head := common.BytesToHash(post.Block.BlockHash)
	parent := common.BytesToHash(post.Block.ParentHash)
	if np.Method != "newPayloadV4" || np.BlockHash != head {
		bad = append(bad, fmt.Sprintf("final-newPayload-not-recorded-head: %s %x vs %x", np.Method, np.BlockHash, head))
	}
	if fcu.Method != "forkchoiceUpdatedV3" || fcu.HasAttrs || fcu.Head != head || fcu.Safe != parent || fcu.Finalized != parent {
		bad = append(bad, fmt.Sprintf("final-forkchoice-not-recorded-head: head %x safe %x fin %x vs head %x parent %x", fcu.Head, fcu.Safe, fcu.Finalized, head, parent))
	}
	return bad
}

var _ = sim.FaultNone
