package enga

import (
	"runtime"
	"sync"

	"verifharness/mc"
)

// Tree is a depth-bounded tree search over ABlocks. ABCI-level states are pairwise
// distinct (monotone heights, sequences, times), so there is no de-duplication: every
// child is executed on a fork of its parent (deep copy of the DB under a new App, which
// also exercises the restart path on every edge).
type Tree struct {
	Run   *mc.Run
	Depth int
	Menu  func(w *World, path []ABlock) []ABlock
	// Pre computes, once per node and before any child runs, what the monitors need to know
	// about the parent state (the parent world is never read concurrently afterwards).
	Pre func(w *World) any
	// Visit is called after child executed b (res); return false to stop descending.
	Visit func(path []ABlock, pre any, child *World, res *Result) bool
	// Only, when set, restricts the search to this one history (used to re-execute a
	// reported violation on a fresh root).
	Only []ABlock
	sem  chan struct{}
	wg   sync.WaitGroup
}

func (t *Tree) Explore(root *World) {
	t.sem = make(chan struct{}, runtime.NumCPU()*2)
	if t.Only != nil {
		t.Depth = len(t.Only)
	}
	t.walk(root, nil, 0, false)
	t.wg.Wait()
}

func (t *Tree) walk(w *World, path []ABlock, depth int, owned bool) {
	defer func() {
		if owned {
			w.Close()
		}
	}()
	if depth >= t.Depth {
		return
	}
	if t.Run.Expired() {
		t.Run.Cap("time budget reached during tree search")
		return
	}
	t.Run.States.Add(1)
	menu := t.Menu(w, path)
	if t.Only != nil {
		menu = []ABlock{t.Only[depth]}
	}
	var pre any
	if t.Pre != nil {
		pre = t.Pre(w)
	}
	var local sync.WaitGroup
	for _, b := range menu {
		b := b
		p := append(append([]ABlock{}, path...), b)
		do := func() {
			defer mc.Guard()
			child, err := w.Fork()
			if err != nil {
				panic(err)
			}
			res := child.Run(b)
			t.Run.Transitions.Add(1)
			t.Run.Validated.Add(1)
			if t.Visit(p, pre, child, res) {
				t.walk(child, p, depth+1, true)
			} else {
				child.Close()
			}
		}
		select {
		case t.sem <- struct{}{}:
			local.Add(1)
			go func() {
				defer func() { <-t.sem; local.Done() }()
				do()
			}()
		default:
			do()
		}
	}
	// the parent world must stay alive until all its children have forked and finished
	local.Wait()
}
