package checks

import (
	"encoding/json"
	"fmt"
	"math/big"
	"sort"
	"strings"
	"time"

	"cosmossdk.io/math"
	cmtproto "github.com/cometbft/cometbft/proto/tendermint/types"
	lockingtypes "github.com/goatnetwork/goat/x/locking/types"
	"verifharness/engb"
	"verifharness/mc"
)

// C14 – downtime jails and slashes once; double-signing tombstones for good.

type c14Val struct {
	Offset, Missed int64
	Tomb           bool
	Jailed         bool
	JailUntil      time.Time
}

type c14Aux struct{ V map[string]c14Val }

func (a *c14Aux) clone() *c14Aux {
	n := &c14Aux{V: map[string]c14Val{}}
	for k, v := range a.V {
		n.V[k] = v
	}
	return n
}

func c14Key(st *engb.LState) string {
	a, _ := st.Aux.(*c14Aux)
	if a == nil {
		return ""
	}
	ks := make([]string, 0, len(a.V))
	for k := range a.V {
		ks = append(ks, k)
	}
	sort.Strings(ks)
	var sb strings.Builder
	for _, k := range ks {
		v := a.V[k]
		j := int64(-1)
		if v.Jailed {
			j = int64(v.JailUntil.Sub(st.Time))
			if j < 0 {
				j = -1
			}
		}
		fmt.Fprintf(&sb, "%x:%d/%d,%v,%v,%d;", k, v.Offset, v.Missed, v.Tomb, v.Jailed, j)
	}
	return sb.String()
}

func c14Configs(thorough bool) []lockCfg {
	cs := []lockCfg{
		{Name: "v0=3,v1=2", Powers: []uint64{3, 2}, MaxValidators: 2, Tk2Weight: 1, Tk2Threshold: 0, Candidates: 3},
	}
	if thorough {
		cs = append(cs, lockCfg{Name: "three", Powers: []uint64{2, 2, 2}, MaxValidators: 3, Tk2Weight: 0, Tk2Threshold: 0, Candidates: 4})
	}
	return cs
}

func c14Menu(c lockCfg, thorough bool) func(w *engb.World, st *engb.LState, depth int) []engb.LBlock {
	ev := func(v int, blocks, secs int64) engb.LBlock {
		return engb.LBlock{Dt: 1, Evidence: []engb.EvSpec{{Val: v, AgeBlocks: blocks, AgeSecs: secs}}}
	}
	base := []engb.LBlock{
		{Dt: 1}, {Dt: 61},
		{Dt: 59, DtMs: 600}, {DtMs: 500}, // just short of / just past the end of a jail term, with sub-second times
		{Dt: 1, Absent: []int{0}},
		{Dt: 1, Absent: []int{1}},
		{Dt: 1, Absent: []int{0, 1}},
		ev(0, 1, 1), ev(0, 5, 1), ev(0, 1, 30), ev(0, 5, 30),
		ev(1, 1, 1),
		{Dt: 1, Evidence: []engb.EvSpec{{Val: 1, AgeBlocks: 2, AgeSecs: 2, LightAtk: true}}},
		{Dt: 1, Ops: []engb.LOp{{Kind: "lock", Val: 0, Token: 0, Amt: amt(1)}}},
		{Dt: 1, Ops: []engb.LOp{{Kind: "lock", Val: 0, Token: 0, Amt: "1"}}},
		{Dt: 61, Ops: []engb.LOp{{Kind: "lock", Val: 0, Token: 0, Amt: "1"}}},
		{Dt: 1, Ops: []engb.LOp{{Kind: "lock", Val: 1, Token: 0, Amt: amt(2)}}},
		{Dt: 1, Ops: []engb.LOp{{Kind: "unlock", Val: 0, Token: 0, Amt: amt(1)}}},
		{Dt: 1, Ops: []engb.LOp{{Kind: "unlock", Val: 0, Token: 0, Amt: "1"}}}, // a partial unlock that keeps it above the threshold (also while jailed)
		{Dt: 1, Ops: []engb.LOp{{Kind: "weight", Token: 0, U64: 2}}},
		{Dt: 1, Ops: []engb.LOp{{Kind: "threshold", Token: 0, Amt: amt(1)}}},
		{Dt: 1, Ops: []engb.LOp{{Kind: "threshold", Token: 1, Amt: amt(1)}}}, // a threshold on a token nobody holds yet
		// two threshold requests in one block: a real change followed by a re-announcement of a stored value
		{Dt: 1, Ops: []engb.LOp{{Kind: "threshold", Token: 1, Amt: amt(1)}, {Kind: "threshold", Token: 0, Amt: amt(2)}}},
		{Dt: 1, Absent: []int{0}, Ops: []engb.LOp{{Kind: "lock", Val: 0, Token: 0, Amt: amt(1)}}},
		{Dt: 1, Absent: []int{0}, Evidence: []engb.EvSpec{{Val: 0, AgeBlocks: 1, AgeSecs: 1}}},
		// a stronger candidate takes the weaker member's seat: for two more blocks the consensus
		// engine's commits still list the outranked (now pending, not active) validator
		{Dt: 1, Ops: []engb.LOp{{Kind: "create", Val: len(c.Powers)}, {Kind: "lock", Val: len(c.Powers), Token: 0, Amt: amt(3)}}},
		// several pieces of evidence in one block: an expired one must not shadow a fresh one
		{Dt: 1, Evidence: []engb.EvSpec{{Val: 0, AgeBlocks: 5, AgeSecs: 30}, {Val: 1, AgeBlocks: 1, AgeSecs: 1}}},
		{Dt: 1, Evidence: []engb.EvSpec{{Val: 1, AgeBlocks: 1, AgeSecs: 1}, {Val: 0, AgeBlocks: 5, AgeSecs: 30}}},
		{Dt: 1, Evidence: []engb.EvSpec{{Val: 0, AgeBlocks: 5, AgeSecs: 30}, {Val: 0, AgeBlocks: 1, AgeSecs: 1}}},
	}
	// the chain is restarted from an exported state in the middle of a signing window / a jail term:
	// what was counted and decided before the hand-over still counts after it
	base = append(base, engb.LBlock{Dt: 1, Reimport: true}, engb.LBlock{Dt: 1, Absent: []int{0}, Reimport: true})
	if thorough {
		base = append(base,
			engb.LBlock{Dt: 1, Ops: []engb.LOp{{Kind: "lock", Val: 0, Token: 1, Amt: "49"}}},
			engb.LBlock{Dt: 1, Ops: []engb.LOp{{Kind: "threshold", Token: 0, Amt: amt(4)}}},
			engb.LBlock{Dt: 60, Ops: []engb.LOp{{Kind: "lock", Val: 0, Token: 0, Amt: "1"}}},
			ev(1, 5, 30),
		)
		if len(c.Powers) > 2 {
			base = append(base, engb.LBlock{Dt: 1, Absent: []int{2}}, engb.LBlock{Dt: 1, Absent: []int{0, 2}})
		}
	}
	return func(w *engb.World, st *engb.LState, depth int) []engb.LBlock { return base }
}

func slashOf(holding math.Int, frac math.LegacyDec) math.Int {
	x := new(big.Int).Mul(holding.BigInt(), frac.BigInt())
	x.Quo(x, big.NewInt(1e18))
	if x.Sign() == 0 {
		return holding
	}
	return math.NewIntFromBigInt(x)
}

func inRanking(s *engb.Snap, a string) bool {
	for _, re := range s.Ranking {
		if re.Addr == a {
			return true
		}
	}
	return false
}

func c14Monitor(r *mc.Run, c lockCfg) engb.Monitor {
	g := c.genesis()
	params := g.LockingParams
	cp := g.Consensus
	keys := c.keys()
	return func(path []engb.LBlock, pre, next *engb.LState, res *engb.StepResult) {
		viol := func(class, msg string) {
			p := append([]engb.LBlock{}, path...)
			r.Violate(mc.Violation{Class: class, Msg: msg + " | history: " + fmt.Sprint(pathStrings(p)), Detail: lockDetail{Cfg: c, Path: p}}, nil)
		}
		if next == nil {
			if res.Truncated {
				r.Outcome("truncated-empty-set")
			} else {
				r.Outcome("block-failed(other property)")
				// the block logic failing is C13's subject; what this property says about the state
				// right after the block's requests still applies: a validator that is in jail has no
				// voting power and no place in the ranking, whatever was requested
				if paux, _ := pre.Aux.(*c14Aux); paux != nil && res.AfterTx != nil {
					for a, rv := range paux.V {
						v, ok := res.AfterTx.Vals[a]
						if ok && rv.Jailed && !rv.Tomb && v.Status == lockingtypes.Downgrade && (v.Power != 0 || inRanking(res.AfterTx, a)) {
							viol("jailed-validator-keeps-power-or-membership", fmt.Sprintf("validator %x power=%d ranking=%v after the block's requests (the block then failed: %v)", a, v.Power, inRanking(res.AfterTx, a), res.EndErr))
						}
					}
				}
			}
			return
		}
		aux, _ := pre.Aux.(*c14Aux)
		if aux == nil {
			aux = &c14Aux{V: map[string]c14Val{}}
		}
		aux = aux.clone()
		next.Aux = aux
		preS, mid, post := res.Pre, res.AfterBegin, res.Post
		now := post.Time
		blk := path[len(path)-1]

		// ---- reference prediction for BeginBlocker
		expSlash := map[string]math.Int{}
		addSlash := func(d string, a math.Int) {
			if cur, ok := expSlash[d]; ok {
				expSlash[d] = cur.Add(a)
			} else {
				expSlash[d] = a
			}
		}
		holding := map[string]map[string]math.Int{} // after predicted slashes
		holdOf := func(a string) map[string]math.Int {
			if h, ok := holding[a]; ok {
				return h
			}
			h := map[string]math.Int{}
			for _, coin := range preS.Vals[a].Locking {
				h[coin.Denom] = coin.Amount
			}
			holding[a] = h
			return h
		}
		downNow := map[string]bool{}
		for _, vi := range res.Votes {
			a := string(vi.Validator.Address)
			if preS.Vals[a].Status != lockingtypes.Active {
				continue // not counted
			}
			rv := aux.V[a]
			if vi.BlockIdFlag == cmtproto.BlockIDFlagAbsent {
				rv.Missed++
			}
			down := rv.Missed >= params.MaxMissedPerWindow
			rv.Offset++
			if rv.Offset >= params.SignedBlocksWindow {
				rv.Offset, rv.Missed = 0, 0
			}
			if down {
				downNow[a] = true
				rv.Jailed = true
				rv.JailUntil = now.Add(params.DowntimeJailDuration)
				for d, h := range holdOf(a) {
					s := slashOf(h, params.SlashFractionDowntime)
					addSlash(d, s)
					holding[a][d] = h.Sub(s)
				}
			}
			aux.V[a] = rv
		}
		tombNow := map[string]bool{}
		for _, e := range blk.Evidence {
			addr := string(keys[e.Val].Addr())
			expired := time.Duration(e.AgeSecs)*time.Second > cp.Evidence.MaxAgeDuration && e.AgeBlocks > cp.Evidence.MaxAgeNumBlocks
			rv := aux.V[addr]
			if expired {
				r.Outcome("evidence-expired")
				continue
			}
			if rv.Tomb {
				r.Outcome("evidence-against-tombstoned")
				continue
			}
			if _, ok := preS.Vals[addr]; !ok {
				continue
			}
			r.Outcome("evidence-applied")
			tombNow[addr] = true
			rv.Tomb = true
			aux.V[addr] = rv
			for d, h := range holdOf(addr) {
				s := slashOf(h, params.SlashFractionDoubleSign)
				addSlash(d, s)
				holding[addr][d] = h.Sub(s)
			}
		}

		// ---- compare with the implementation after BeginBlocker
		for a, pv := range preS.Vals {
			mv := mid.Vals[a]
			switch {
			case tombNow[a]:
				if mv.Status != lockingtypes.Tombstoned || mv.Power != 0 || inRanking(mid, a) {
					viol("double-sign-not-tombstoned", fmt.Sprintf("validator %x status=%s power=%d ranking=%v after unexpired evidence", a, mv.Status, mv.Power, inRanking(mid, a)))
				}
			case downNow[a]:
				if mv.Status != lockingtypes.Downgrade || mv.Power != 0 || inRanking(mid, a) {
					viol("downtime-not-jailed", fmt.Sprintf("validator %x status=%s power=%d ranking=%v after reaching the missed-block limit", a, mv.Status, mv.Power, inRanking(mid, a)))
				}
				r.Outcome("downtime-jail")
			default:
				if mv.Status != pv.Status {
					viol("unexpected-status-change-in-begin-block", fmt.Sprintf("validator %x %s -> %s (reference: no offence; window %d/%d)", a, pv.Status, mv.Status, aux.V[a].Offset, aux.V[a].Missed))
				}
			}
			if tombNow[a] || downNow[a] {
				for d, h := range holding[a] {
					if !mv.Locking.AmountOf(d).Equal(h) {
						viol("slash-amount-wrong", fmt.Sprintf("validator %x holds %s %s after slashing, expected %s", a, mv.Locking.AmountOf(d), d, h))
					}
				}
			} else if !mv.Locking.Equal(pv.Locking) {
				viol("holding-changed-without-offence", fmt.Sprintf("validator %x %s -> %s", a, pv.Locking, mv.Locking))
			}
		}
		denoms := map[string]bool{}
		for d := range expSlash {
			denoms[d] = true
		}
		for d := range mid.Slashed {
			denoms[d] = true
		}
		for d := range denoms {
			before := math.ZeroInt()
			if s, ok := preS.Slashed[d]; ok {
				before = s
			}
			after := math.ZeroInt()
			if s, ok := mid.Slashed[d]; ok {
				after = s
			}
			exp := math.ZeroInt()
			if s, ok := expSlash[d]; ok {
				exp = s
			}
			if !after.Sub(before).Equal(exp) {
				viol("slashed-total-wrong", fmt.Sprintf("slashed[%s] grew by %s, reference says %s (downtime %v, double-sign %v)", d, after.Sub(before), exp, len(downNow) > 0, len(tombNow) > 0))
			}
		}

		// ---- state invariants after the whole block
		// what the consensus engine holds: every ValidatorUpdates answer since genesis applied with
		// CometBFT's own code. The module's record of the set is not evidence of that (a removal that
		// is deleted from the record before EndBlocker compares is never reported).
		engine := map[string]int64{}
		for _, ev := range next.RV.Latest() {
			engine[string(ev.Address)] = ev.Power
		}
		for a, v := range post.Vals {
			rv := aux.V[a]
			if p, ok := engine[a]; ok && (rv.Tomb || (rv.Jailed && v.Status == lockingtypes.Downgrade)) {
				viol("punished-validator-still-in-the-consensus-engine's-set", fmt.Sprintf("validator %x tombstoned=%v jailed=%v status=%s: the validator updates reported since genesis leave it in CometBFT's set with power %d", a, rv.Tomb, rv.Jailed, v.Status, p))
			}
			if rv.Tomb {
				_, inSet := post.ValSet[a]
				if v.Status != lockingtypes.Tombstoned || v.Power != 0 || inRanking(post, a) || inSet {
					viol("tombstone-not-permanent", fmt.Sprintf("validator %x status=%s power=%d ranking=%v in-set=%v", a, v.Status, v.Power, inRanking(post, a), inSet))
				}
				continue
			}
			if rv.Jailed {
				mv := mid.Vals[a]
				if mv.Status == lockingtypes.Downgrade && v.Status != lockingtypes.Downgrade {
					// left jail in this block
					if v.Status == lockingtypes.Pending || v.Status == lockingtypes.Active {
						if !now.After(rv.JailUntil) {
							viol("unjailed-before-jail-time", fmt.Sprintf("validator %x re-admitted %s before jail end", a, rv.JailUntil.Sub(now)))
						}
						for d, tk := range post.Tokens {
							if v.Locking.AmountOf(d).LT(tk.Threshold) {
								viol("unjailed-below-threshold", fmt.Sprintf("validator %x holds %s %s < threshold %s", a, v.Locking.AmountOf(d), d, tk.Threshold))
							}
						}
						r.Outcome("unjailed")
					}
					rv.Jailed = false
					aux.V[a] = rv
				} else if v.Status == lockingtypes.Downgrade {
					_, inSet := post.ValSet[a]
					if v.Power != 0 || inRanking(post, a) || inSet {
						viol("jailed-validator-keeps-power-or-membership", fmt.Sprintf("validator %x power=%d ranking=%v in-set=%v", a, v.Power, inRanking(post, a), inSet))
					}
				}
			}
			// a validator that becomes Active starts a new signing window
			if v.Status == lockingtypes.Active && mid.Vals[a].Status != lockingtypes.Active {
				rv.Offset, rv.Missed = 0, 0
				aux.V[a] = rv
			}
		}
	}
}

func runC14(r *mc.Run) {
	depth := 5
	if r.Thorough() {
		depth = 8
		r.SetBudget(10 * 60 * 1e9)
	} else {
		r.SetBudget(300 * 1e9)
	}
	r.Bounds["depth_blocks"] = depth
	r.Rule = "DFS over vote patterns x evidence timings (fresh, old by blocks only, by time only, by both, light-client attack) x later lock/unlock/weight/threshold requests; window 3, max missed 2, jail 60s, evidence max age 3 blocks / 20 s; oracle = reference signing-window automaton, exact slash amounts and totals, jail until expiry and thresholds, tombstone permanence"
	r.Assumptions = []string{"votes and evidence only name validators known to the application"}
	completed := depth
	for _, c := range c14Configs(r.Thorough()) {
		e := &engb.Explorer{Run: r, NewRoot: c.newRoot, Menu: c14Menu(c, r.Thorough()), Monitor: c14Monitor(r, c), Depth: depth, ConformanceDepth: 2, WantMid: true, ExtraKey: c14Key}
		if err := e.Explore(); err != nil {
			panic(err)
		}
		runConformance(r, c, e)
		if e.Completed < completed {
			completed = e.Completed
		}
		m := c14Menu(c, r.Thorough())(nil, nil, 0)
		r.Sample(map[string]any{"config": c, "menu_size": len(m), "example_blocks": []string{m[4].String(), m[6].String(), m[len(m)-1].String()}})
	}
	r.Bounds["depth_completed"] = completed
}

func init() {
	register(&Check{ID: "C14", Run: runC14, Replay: func(d json.RawMessage) (bool, string) { return lockReplay(d, c14Monitor, true) }})
}
