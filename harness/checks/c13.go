package checks

import (
	"encoding/json"
	"fmt"
	"sort"
	"strings"

	lockingtypes "github.com/goatnetwork/goat/x/locking/types"
	"verifharness/engb"
	"verifharness/mc"
)

// C13 – validator set is the top-K by power; every update is acceptable to CometBFT.

func c13Configs(thorough bool) []lockCfg {
	cs := []lockCfg{
		{Name: "two-tied-max2", Powers: []uint64{2, 2}, MaxValidators: 2, Tk2Weight: 3, Tk2Threshold: 0, Candidates: 3},
		{Name: "two-max1", Powers: []uint64{2, 3}, MaxValidators: 1, Tk2Weight: 0, Tk2Threshold: 0, Candidates: 3},
		{Name: "one-max3-tk2thr", Powers: []uint64{2}, MaxValidators: 3, Tk2Weight: 3, Tk2Threshold: 1, Candidates: 3},
		{Name: "rich-v0-max2", Powers: []uint64{5, 2}, MaxValidators: 2, Tk2Weight: 0, Tk2Threshold: 0, Candidates: 3}, // stays above the threshold after a slash
	}
	// a non-initial corner: the menu's candidate starts in jail (holding 4.9 btc, above the
	// threshold) next to a validator whose power also comes from the second token, so that the
	// first token's weight can drop to zero without emptying the set
	cs = append(cs, lockCfg{Name: "jailed-candidate+tk2-anchor", Powers: []uint64{2}, MaxValidators: 2, Tk2Weight: 3, Tk2Threshold: 0, Candidates: 2,
		V0Tk2: amt(1), Jailed: []jailSpec{{Btc: theta.MulRaw(49).QuoRaw(10).String()}}, JailSecs: 30})
	cs = append(cs, lockCfg{Name: "huge-amounts", Powers: []uint64{2, 2}, MaxValidators: 2, Tk2Weight: 3, Tk2Threshold: 0, Candidates: 3, HugeAmounts: true})
	if thorough {
		cs = append(cs, lockCfg{Name: "three-tied-max2", Powers: []uint64{2, 2, 2}, MaxValidators: 2, Tk2Weight: 1, Tk2Threshold: 0, Candidates: 4})
	}
	return cs
}

// lockingOps is the request alphabet shared by C11-C15 menus (restricted per check).
func lockingOps(c lockCfg, rich bool) []engb.LOp {
	nG := len(c.Powers)
	cand := nG // first non-genesis key
	ops := []engb.LOp{
		{Kind: "create", Val: cand},
		{Kind: "lock", Val: cand, Token: 0, Amt: "1"},
		{Kind: "lock", Val: cand, Token: 0, Amt: amt(2)},
		{Kind: "lock", Val: cand, Token: 0, Amt: amt(3)},
		{Kind: "lock", Val: cand, Token: 1, Amt: amt(1)},
		{Kind: "lock", Val: 0, Token: 0, Amt: amt(1)},
		{Kind: "unlock", Val: 0, Token: 0, Amt: amt(1)},
		{Kind: "unlock", Val: cand, Token: 0, Amt: amt(1)},
		{Kind: "weight", Token: 1, U64: 0},
		{Kind: "weight", Token: 1, U64: 3},
		{Kind: "weight", Token: 0, U64: 0},
		{Kind: "weight", Token: 0, U64: 2},
		{Kind: "threshold", Token: 0, Amt: amt(3)},
		{Kind: "threshold", Token: 0, Amt: "0"},
	}
	if nG > 1 {
		ops = append(ops,
			engb.LOp{Kind: "lock", Val: 1, Token: 0, Amt: amt(1)},
			engb.LOp{Kind: "unlock", Val: 1, Token: 0, Amt: amt(3)},
		)
	}
	if rich {
		ops = append(ops,
			engb.LOp{Kind: "lock", Val: 0, Token: 1, Amt: amt(1)},
			engb.LOp{Kind: "unlock", Val: 0, Token: 1, Amt: amt(1)},
			engb.LOp{Kind: "unlock", Val: 0, Token: 0, Amt: "1"},
			engb.LOp{Kind: "threshold", Token: 1, Amt: amt(2)},
			engb.LOp{Kind: "claim", Val: 0},
		)
	}
	return ops
}

func c13Menu(c lockCfg, thorough bool) func(w *engb.World, st *engb.LState, depth int) []engb.LBlock {
	if c.HugeAmounts {
		// amounts as large as a 256-bit token balance allows: the power they would give exceeds what
		// the consensus engine accepts as total voting power (2^60 - 1)
		cand := len(c.Powers)
		huge := []engb.LBlock{
			{Dt: 1},
			{Dt: 1, Ops: []engb.LOp{{Kind: "lock", Val: 0, Token: 0, Amt: "1200000000000000000000000000000000000"}}},
			{Dt: 1, Ops: []engb.LOp{{Kind: "lock", Val: cand, Token: 0, Amt: "600000000000000000000000000000000000"}}},
			{Dt: 1, Ops: []engb.LOp{{Kind: "lock", Val: 0, Token: 0, Amt: "600000000000000000000000000000000000"}}},
			{Dt: 1, Ops: []engb.LOp{{Kind: "lock", Val: 0, Token: 0, Amt: "115792089237316195423570985008687907853269984665640564039457584007913129639935"}}},
			{Dt: 1, Ops: []engb.LOp{{Kind: "create", Val: cand}}},
			{Dt: 1, Ops: []engb.LOp{{Kind: "weight", Token: 0, U64: 2}}},
			{Dt: 1, Ops: []engb.LOp{{Kind: "weight", Token: 0, U64: 18446744073709551615}}},
			{Dt: 1, Ops: []engb.LOp{{Kind: "unlock", Val: 0, Token: 0, Amt: "600000000000000000000000000000000000"}}},
			{Dt: 1, Evidence: []engb.EvSpec{{Val: 0, AgeBlocks: 1, AgeSecs: 1}}},
		}
		return func(w *engb.World, st *engb.LState, depth int) []engb.LBlock { return huge }
	}
	ops := lockingOps(c, thorough)
	base := singleOpBlocks(ops, []int64{1, 61})
	// vote / evidence deviations
	base = append(base,
		engb.LBlock{Dt: 1, Absent: []int{0}},
		engb.LBlock{Dt: 1, Evidence: []engb.EvSpec{{Val: 0, AgeBlocks: 1, AgeSecs: 1}}},
	)
	if len(c.Powers) > 1 {
		base = append(base,
			engb.LBlock{Dt: 1, Absent: []int{1}},
			engb.LBlock{Dt: 1, Evidence: []engb.EvSpec{{Val: 1, AgeBlocks: 1, AgeSecs: 1}}},
		)
	}
	cand := len(c.Powers)
	// claims: of a sitting validator, and of one that has just left with everything it held while
	// the consensus engine still counts its votes (two heights) and may still bring evidence against it
	base = append(base,
		engb.LBlock{Dt: 1, Ops: []engb.LOp{{Kind: "claim", Val: 0}}},
		engb.LBlock{Dt: 1, Ops: []engb.LOp{{Kind: "claim", Val: cand}}},
	)
	if len(c.Powers) > 1 {
		base = append(base,
			engb.LBlock{Dt: 1, Ops: []engb.LOp{{Kind: "claim", Val: 1}}},
			engb.LBlock{Dt: 1, Evidence: []engb.EvSpec{{Val: 1, AgeBlocks: 3, AgeSecs: 3}}},
		)
	}
	// two events in one block: interacting pairs
	pairs := []engb.LBlock{
		{Dt: 1, Ops: []engb.LOp{{Kind: "create", Val: cand}, {Kind: "lock", Val: cand, Token: 0, Amt: amt(3)}}},
		{Dt: 1, Ops: []engb.LOp{{Kind: "create", Val: cand}, {Kind: "lock", Val: cand, Token: 0, Amt: "1"}}},
		{Dt: 1, Ops: []engb.LOp{{Kind: "lock", Val: cand, Token: 0, Amt: amt(3)}, {Kind: "unlock", Val: 0, Token: 0, Amt: amt(1)}}},
		{Dt: 1, Ops: []engb.LOp{{Kind: "lock", Val: cand, Token: 0, Amt: amt(2)}, {Kind: "unlock", Val: cand, Token: 0, Amt: amt(2)}}},
		{Dt: 1, Ops: []engb.LOp{{Kind: "lock", Val: 0, Token: 0, Amt: amt(1)}, {Kind: "lock", Val: cand, Token: 0, Amt: amt(1)}}},
		{Dt: 1, Absent: []int{0}, Ops: []engb.LOp{{Kind: "lock", Val: 0, Token: 0, Amt: amt(1)}}},
		{Dt: 1, Evidence: []engb.EvSpec{{Val: 0, AgeBlocks: 1, AgeSecs: 1}}, Ops: []engb.LOp{{Kind: "lock", Val: cand, Token: 0, Amt: amt(3)}}},
	}
	base = append(base, pairs...)
	// the chain restarted from an exported state in mid-history: for the reference model a no-op
	base = append(base, engb.LBlock{Dt: 1, Reimport: true})
	return func(w *engb.World, st *engb.LState, depth int) []engb.LBlock { return base }
}

func isCandidate(v lockingtypes.Validator) bool {
	return (v.Status == lockingtypes.Pending || v.Status == lockingtypes.Active) && v.Power > 0
}

func c13Monitor(r *mc.Run, c lockCfg) engb.Monitor {
	return func(path []engb.LBlock, pre, next *engb.LState, res *engb.StepResult) {
		viol := func(class, msg string) {
			p := append([]engb.LBlock{}, path...)
			r.Violate(mc.Violation{Class: class, Msg: msg + " | history: " + fmt.Sprint(pathStrings(p)), Detail: lockDetail{Cfg: c, Path: p}}, nil)
		}
		last := path[len(path)-1]
		lastOp := "vote/evidence/time"
		if len(last.Ops) > 0 {
			lastOp = last.Ops[len(last.Ops)-1].Kind
		}
		if res.Panic != nil {
			viol("panic-in-block-logic", fmt.Sprintf("panic: %v", res.Panic))
			return
		}
		if res.BeginErr != nil {
			viol("begin-blocker-error:"+res.BeginErr.Error(), "BeginBlocker failed: "+res.BeginErr.Error())
			return
		}
		if res.EndErr != nil {
			viol("end-blocker-error:"+res.EndErr.Error(), "EndBlocker failed: "+res.EndErr.Error())
			return
		}
		if res.Truncated {
			r.Outcome("truncated-empty-set")
			return
		}
		if res.TxPanic != nil {
			r.Outcome("request-processing-panics-and-the-message-fails")
		}
		if res.ValSetErr != nil && (strings.Contains(res.ValSetErr.Error(), "to prevent clipping/overflow") || strings.Contains(res.ValSetErr.Error(), "exceeds max")) {
			// the reported power exceeds what the consensus engine accepts in total (2^60 - 1)
			viol("cometbft-rejects-update:total-voting-power-overflow:by-"+lastOp, fmt.Sprintf("CometBFT UpdateWithChangeSet rejects %v: %v", res.Updates, res.ValSetErr))
			return
		}
		if res.ValSetErr != nil {
			zero := false
			for _, u := range res.Updates {
				if u.Power == 0 {
					zero = true
				}
			}
			cls := "cometbft-rejects-update"
			if zero {
				cls = "cometbft-rejects-update:zero-power-for-non-member"
			}
			viol(cls, fmt.Sprintf("CometBFT UpdateWithChangeSet rejects %v: %v (last event %s)", res.Updates, res.ValSetErr, lastOp))
			return
		}
		if res.TxErr != nil {
			r.Outcome("tx-failed")
		} else {
			r.Outcome(fmt.Sprintf("ok-updates-%d", len(res.Updates)))
		}
		post := res.Post
		// accumulated reference set == module's recorded set
		ref := next.RV.Latest()
		if len(ref) != len(post.ValSet) {
			viol("recorded-set-differs-from-accumulated-updates", fmt.Sprintf("reference set %v vs recorded %v", ref, post.ValSet))
			return
		}
		for _, v := range ref {
			if p, ok := post.ValSet[string(v.Address)]; !ok || int64(p) != v.Power {
				viol("recorded-set-differs-from-accumulated-updates", fmt.Sprintf("reference %x:%d vs recorded %d (present=%v)", v.Address, v.Power, p, ok))
				return
			}
		}
		if int64(len(post.ValSet)) > post.Params.MaxValidators {
			viol("set-larger-than-max", fmt.Sprintf("%d > %d", len(post.ValSet), post.Params.MaxValidators))
		}
		var minMember uint64 = ^uint64(0)
		for a, p := range post.ValSet {
			v := post.Vals[a]
			if v.Status != lockingtypes.Active || v.Power != p || p == 0 {
				viol("member-not-active-with-current-positive-power", fmt.Sprintf("member %x status=%s power=%d recorded=%d", a, v.Status, v.Power, p))
			}
			if p < minMember {
				minMember = p
			}
		}
		eligible := 0
		for a, v := range post.Vals {
			if !isCandidate(v) {
				continue
			}
			eligible++
			if _, in := post.ValSet[a]; in {
				continue
			}
			if int64(len(post.ValSet)) < post.Params.MaxValidators {
				viol("eligible-validator-left-out-of-non-full-set", fmt.Sprintf("validator %x power %d status %s not in set of size %d < max %d", a, v.Power, v.Status, len(post.ValSet), post.Params.MaxValidators))
			} else if v.Power > minMember {
				viol("non-member-with-more-power-than-member", fmt.Sprintf("validator %x power %d > weakest member %d", a, v.Power, minMember))
			}
		}
		want := int64(eligible)
		if want > post.Params.MaxValidators {
			want = post.Params.MaxValidators
		}
		if int64(len(post.ValSet)) != want {
			viol("set-size-not-min(max,eligible)", fmt.Sprintf("size %d, eligible %d, max %d", len(post.ValSet), eligible, post.Params.MaxValidators))
		}
	}
}

func runC13(r *mc.Run) {
	depth := 5
	if r.Thorough() {
		depth = 7
		r.SetBudget(10 * 60 * 1e9)
	} else {
		r.SetBudget(300 * 1e9)
	}
	r.Bounds["depth_blocks"] = depth
	r.Rule = "DFS over block histories of the real locking keeper (BeginBlocker, execution-block requests as one atomic tx, EndBlocker) on CacheContext branches; menu = single request ops + interacting pairs + absent votes + evidence + time deltas; de-duplicated on a canonical re-based store dump; oracle = CometBFT ValidatorSet.UpdateWithChangeSet + top-K invariants"
	r.Assumptions = []string{"votes/evidence name only validators the application put in the set", "histories are truncated where the validator set would become empty (environment liveness assumption)", "amount alphabet {1 wei, 1..3 units}"}
	cfgs := c13Configs(r.Thorough())
	r.Bounds["configs"] = len(cfgs)
	r.Bounds["depth_blocks_small_configs"] = depth - 1
	small := func(c lockCfg) bool {
		return c.Name == "two-max1" || c.Name == "one-max3-tk2thr" || c.Name == "jailed-candidate+tk2-anchor" || c.HugeAmounts
	}
	// the small worlds first: should the wall-clock budget run out on a loaded machine, it is the
	// deepest level of the two rich ones that is cut, not a whole configuration
	sort.SliceStable(cfgs, func(i, j int) bool { return small(cfgs[i]) && !small(cfgs[j]) })
	for _, c := range cfgs {
		d := depth
		if small(c) && !c.HugeAmounts {
			d = depth - 1 // smaller worlds get one level less; the budget goes to the two richer ones
		}
		e := &engb.Explorer{Run: r, NewRoot: c.newRoot, Menu: c13Menu(c, r.Thorough()), Monitor: c13Monitor(r, c), Depth: d, ConformanceDepth: 2}
		if err := e.Explore(); err != nil {
			panic(err)
		}
		runConformance(r, c, e)
		r.Sample(map[string]any{"config": c, "example_block_menu_size": len(c13Menu(c, r.Thorough())(nil, nil, 0))})
	}
}

func init() {
	register(&Check{ID: "C13", Run: runC13, Replay: func(d json.RawMessage) (bool, string) { return lockReplay(d, c13Monitor, false) }})
}
