package checks

import (
	"bytes"
	"encoding/json"
	"fmt"
	"sort"
	"strings"
	"sync/atomic"
	"time"

	abci "github.com/cometbft/cometbft/abci/types"
	cmtproto "github.com/cometbft/cometbft/proto/tendermint/types"
	dbm "github.com/cosmos/cosmos-db"
	sdk "github.com/cosmos/cosmos-sdk/types"
	lockingtypes "github.com/goatnetwork/goat/x/locking/types"
	relayertypes "github.com/goatnetwork/goat/x/relayer/types"
	"verifharness/enga"
	"verifharness/engb"
	"verifharness/mc"
	"verifharness/sim"
)

// C18 – exported state re-imports to an equivalent, invariant-respecting state.

func c18Cfg() *sim.GenesisCfg {
	g := c08Cfg()
	g.LockingParams.MaxValidators = 3
	g.Tokens = append(g.Tokens, &lockingtypes.TokenGenesis{Denom: lockingtypes.TokenDenom(enga.Tk2), Token: lockingtypes.Token{Weight: 1, Threshold: sim.Theta.MulRaw(0)}})
	return g
}

func c18Menu(thorough bool) []enga.ABlock {
	ev := func(es ...enga.Event) enga.ABlock { return enga.ABlock{Events: es} }
	m := []enga.ABlock{
		{},
		ev(enga.Event{Kind: "req:create", N: 3}),
		ev(enga.Event{Kind: "req:create", N: 0}), // a pending validator without voting power
		{Absent: []int{1}},
		{Evidence: []int{1}},
		ev(enga.Event{Kind: "req:unlock-big", N: 1}), // validator 1 drops below the threshold: exiting
		ev(enga.Event{Kind: "req:unlock", N: 3}, enga.Event{Kind: "req:claim", N: 2}),
		ev(enga.Event{Kind: "req:addvoter"}),
		ev(enga.Event{Kind: "tx:newvoter"}),
		{Dt: 7},
		ev(enga.Event{Kind: "req:withdraw", N: 2}, enga.Event{Kind: "req:withdraw", N: 1, Var: "bad-address"}),
		ev(enga.Event{Kind: "tx:process", N: 1}),
		ev(enga.Event{Kind: "req:cancel"}),
		ev(enga.Event{Kind: "tx:approve", Var: "reversed"}), // refunds queued in an order that is not the order of their ids
		ev(enga.Event{Kind: "tx:hashes", N: 2}),
		ev(enga.Event{Kind: "tx:deposits", N: 9}),
		ev(enga.Event{Kind: "req:params", Var: "rate-20-cap-1000"}),
		ev(enga.Event{Kind: "req:params", Var: "rate0-cap5"}),
		ev(enga.Event{Kind: "req:params", Var: "cap-huge"}),
		ev(enga.Event{Kind: "req:params", Var: "min-1001"}),
		ev(enga.Event{Kind: "req:grant", N: 1000}),
		ev(enga.Event{Kind: "req:create-tk2", N: 3}), // a candidate whose power comes from the second token only
		ev(enga.Event{Kind: "req:weight-tk2", N: 0}), // ... and loses it when that token's weight drops to zero
		ev(enga.Event{Kind: "req:threshold", N: 0}),  // the last non-zero threshold is lowered to zero: the threshold list is empty, not absent
	}
	if thorough {
		m = append(m,
			ev(enga.Event{Kind: "req:weight", N: 0}),
			ev(enga.Event{Kind: "req:removevoter"}),
			ev(enga.Event{Kind: "tx:newpubkey"}),
			ev(enga.Event{Kind: "tx:hashes", N: 1}, enga.Event{Kind: "tx:finalize"}),
			ev(enga.Event{Kind: "req:params", Var: "conf-6"}),
		)
	}
	return m
}

var c18QueriesAsked, c18QueriesAnswered atomic.Int64

func canonJSON(raw []byte) string {
	var v any
	if err := json.Unmarshal(raw, &v); err != nil {
		return string(raw)
	}
	out, _ := json.Marshal(v)
	return string(out)
}

// c18RoundTrip exports the world's state, initialises a fresh chain from it and compares.
// It returns violation strings "class: detail".
func c18RoundTrip(w *enga.World) (bad []string) {
	n := w.N
	exp, err := n.App.ExportAppStateAndValidators(false, nil, nil)
	if err != nil {
		return []string{"export-fails: " + err.Error()}
	}
	el, err := n.EL.Fork()
	must(err)
	imp, err := sim.NewNode(n.Cfg, el, dbm.NewMemDB())
	must(err)
	defer func() { imp.Close(); el.Close() }()
	var resp *abci.ResponseInitChain
	func() {
		defer func() {
			if p := recover(); p != nil {
				bad = append(bad, fmt.Sprintf("import-panics: %v", p))
			}
		}()
		resp, err = imp.App.InitChain(&abci.RequestInitChain{Time: n.Time, ChainId: n.Cfg.ChainID, ConsensusParams: &exp.ConsensusParams,
			AppStateBytes: exp.AppState, InitialHeight: exp.Height})
		if err != nil {
			bad = append(bad, "import-fails: "+err.Error())
		}
	}()
	if len(bad) > 0 || resp == nil {
		return bad
	}
	hdr := cmtproto.Header{ChainID: n.Cfg.ChainID, Height: exp.Height, Time: n.Time}
	ictx := imp.App.NewContextLegacy(false, hdr)
	sctx := n.Ctx()

	// initial validator set == exported active set == recorded set
	want := map[string]int64{}
	for _, v := range exp.Validators {
		want[string(v.Address)] = v.Power
	}
	got := map[string]int64{}
	for _, u := range resp.Validators {
		got[string(sdk.ConsAddress(sim.CmtAddr(u)))] = u.Power
	}
	if fmt.Sprint(sortedMap(want)) != fmt.Sprint(sortedMap(got)) {
		bad = append(bad, fmt.Sprintf("initial-validators-differ-from-exported-set: exported %v, InitChain returned %v", sortedMap(want), sortedMap(got)))
	}
	for _, u := range resp.Validators {
		if u.Power <= 0 {
			bad = append(bad, "initial-validator-with-non-positive-power")
		}
	}
	// second export identical to the first (module by module)
	gen2, err := imp.App.ModuleManager.ExportGenesisForModules(ictx, imp.App.AppCodec(), nil)
	if err != nil {
		return append(bad, "second-export-fails: "+err.Error())
	}
	var gen1 map[string]json.RawMessage
	must(json.Unmarshal(exp.AppState, &gen1))
	mods := []string{"auth", "relayer", "bitcoin", "locking", "goat", "consensus"}
	for _, m := range mods {
		a, b := canonJSON(gen1[m]), canonJSON(gen2[m])
		if a != b {
			bad = append(bad, fmt.Sprintf("second-export-differs:%s: %s", m, firstDiff(a, b)))
		}
	}
	// derived stores and all other module state: logical dumps
	sd := n.DumpStores(sctx, "relayer", "bitcoin", "locking", "goat")
	id := imp.DumpStores(ictx, "relayer", "bitcoin", "locking", "goat")
	for _, d := range sd.Diff(id) {
		if strings.HasPrefix(d, "relayer/05") {
			// the boarding queue is compared as a multiset below
			continue
		}
		bad = append(bad, "store-differs-after-import:"+d)
	}
	sq, _ := n.App.RelayerKeeper.Queue.Get(sctx)
	iq, _ := imp.App.RelayerKeeper.Queue.Get(ictx)
	if multiset(sq.OnBoarding) != multiset(iq.OnBoarding) || multiset(sq.OffBoarding) != multiset(iq.OffBoarding) {
		bad = append(bad, fmt.Sprintf("boarding-queue-differs: %v/%v vs %v/%v", sq.OnBoarding, sq.OffBoarding, iq.OnBoarding, iq.OffBoarding))
	}
	// every query gives the same answer on both chains
	qbad, asked, answered := c18CompareQueries(w, sctx, imp, ictx)
	bad = append(bad, qbad...)
	c18QueriesAsked.Add(int64(asked))
	c18QueriesAnswered.Add(int64(answered))
	// invariants of the running chain hold on the import
	snap := engb.TakeSnap(imp, ictx)
	for _, re := range snap.Ranking {
		v := snap.Vals[re.Addr]
		if (v.Status != lockingtypes.Pending && v.Status != lockingtypes.Active) || v.Power == 0 || v.Power != re.Power {
			bad = append(bad, fmt.Sprintf("imported-ranking-entry-invalid: %x power %d status %s entry %d", re.Addr, v.Power, v.Status, re.Power))
		}
	}
	for a, p := range snap.ValSet {
		v := snap.Vals[a]
		if v.Status != lockingtypes.Active || v.Power != p || p == 0 {
			bad = append(bad, fmt.Sprintf("imported-set-member-invalid: %x", a))
		}
	}
	rel, err := imp.App.RelayerKeeper.Relayer.Get(ictx)
	if err != nil {
		bad = append(bad, "imported-relayer-missing")
	} else {
		seen := map[string]bool{rel.Proposer: true}
		for _, v := range rel.Voters {
			if seen[v] {
				bad = append(bad, "imported-group-duplicate-member")
			}
			seen[v] = true
		}
		for a := range seen {
			rec, err := imp.App.RelayerKeeper.Voters.Get(ictx, a)
			if err != nil || (rec.Status != relayertypes.VOTER_STATUS_ACTIVATED && rec.Status != relayertypes.VOTER_STATUS_OFF_BOARDING) {
				bad = append(bad, "imported-group-member-without-valid-record")
			}
		}
	}
	// the same export initialised after a pause (genesis time one hour later, as when operators
	// restart a halted network): what is stored must not depend on when the chain is started -
	// nothing that was pending (unlocks maturing meanwhile, elections falling due) may be lost
	if len(bad) == 0 {
		el2, err := n.EL.Fork()
		must(err)
		late, err := sim.NewNode(n.Cfg, el2, dbm.NewMemDB())
		must(err)
		func() {
			defer func() {
				if p := recover(); p != nil {
					bad = append(bad, fmt.Sprintf("import-after-a-pause-panics: %v", p))
				}
			}()
			lt := n.Time.Add(time.Hour)
			if _, err := late.App.InitChain(&abci.RequestInitChain{Time: lt, ChainId: n.Cfg.ChainID, ConsensusParams: &exp.ConsensusParams,
				AppStateBytes: exp.AppState, InitialHeight: exp.Height}); err != nil {
				bad = append(bad, "import-after-a-pause-fails: "+err.Error())
				return
			}
			lctx := late.App.NewContextLegacy(false, cmtproto.Header{ChainID: n.Cfg.ChainID, Height: exp.Height, Time: lt})
			ld := late.DumpStores(lctx, "relayer", "bitcoin", "locking", "goat")
			for _, d := range sd.Diff(ld) {
				if strings.HasPrefix(d, "relayer/05") {
					continue
				}
				bad = append(bad, "store-differs-after-import-after-a-pause:"+d)
			}
		}()
		late.Close()
		el2.Close()
	}
	// the imported chain keeps producing blocks
	if len(bad) == 0 {
		imp.Height, imp.Time, imp.LastHash = exp.Height-1, n.Time, bytes.Clone(n.LastHash)
		imp.InitialHeight = exp.Height
		vs, err := sim.NewRefValSet(resp.Validators)
		if err != nil {
			return append(bad, "imported-validator-set-unusable: "+err.Error())
		}
		imp.ValSet = vs.ShiftTo(exp.Height)
		rr := imp.RunBlock(&sim.Block{TimeDelta: time.Second})
		if rr.Err != nil {
			bad = append(bad, fmt.Sprintf("imported-chain-cannot-produce-a-block:%s: %v", rr.Stage, rr.Err))
		} else if rr.Finalize.TxResults[0].Code != 0 {
			bad = append(bad, "imported-chain-first-block-message-fails: "+rr.Finalize.TxResults[0].Log)
		}
	}
	return bad
}

func sortedMap(m map[string]int64) []string {
	var out []string
	for k, v := range m {
		out = append(out, fmt.Sprintf("%x:%d", k, v))
	}
	sort.Strings(out)
	return out
}

func multiset(s []string) string {
	c := append([]string{}, s...)
	sort.Strings(c)
	return strings.Join(c, ",")
}

func firstDiff(a, b string) string {
	i := 0
	for i < len(a) && i < len(b) && a[i] == b[i] {
		i++
	}
	lo := i - 60
	if lo < 0 {
		lo = 0
	}
	end := func(s string) int {
		if i+60 < len(s) {
			return i + 60
		}
		return len(s)
	}
	return fmt.Sprintf("...%s | vs | ...%s", a[lo:end(a)], b[lo:end(b)])
}

func runC18(r *mc.Run) {
	depth := 3
	if r.Thorough() {
		depth = 4
		r.SetBudget(13 * 60 * 1e9)
	} else {
		r.SetBudget(300 * 1e9)
	}
	r.Bounds["depth_blocks"] = depth
	r.Rule = "tree search over block histories of the real application producing pending / active / zero-power / jailed-path / tombstoned / exiting validators, pending and boarding voters (also several membership changes of a group of four queued between two elections), in-flight and cancelling withdrawals (also two batches in flight that bitcoin confirms in either order), non-empty queues, pending unlocks, voted hashes, credited deposits and bridge-parameter corners; in every visited state: ExportAppStateAndValidators -> InitChain on a fresh App must succeed, return the exported active set, re-export identically (per module), reproduce every module store (boarding queue as a multiset), answer every gRPC query of the goat modules and the auth account queries identically (every method, every argument denoting something in the state plus unknown ones, through the registered query routes), satisfy the ranking / set / group invariants, reproduce the same stores when initialised with a genesis time one hour later, and produce a block"
	r.Assumptions = []string{"the re-export reads the imported state through the finalize-state context right after InitChain (no block in between)"}
	for _, rt := range c18Roots(r.Thorough()) {
		rt := rt
		var explore func(r *mc.Run, only []enga.ABlock)
		explore = func(r *mc.Run, only []enga.ABlock) {
			root, err := enga.NewWorld(rt.Cfg())
			if err != nil {
				panic(err)
			}
			defer root.Close()
			for _, b := range rt.Setup {
				if rr := root.Run(b); rr.Err != nil {
					panic(fmt.Sprintf("root %s setup: %v", rt.Name, rr.Err))
				}
			}
			menu := rt.Menu
			check := func(w *enga.World, path []enga.ABlock) {
				for _, b := range c18RoundTrip(w) {
					cls := b
					if i := strings.Index(b, ":"); i > 0 {
						cls = b[:i]
						// keep the module / store prefix in the class so that distinct defects stay distinct
						rest := b[i+1:]
						if j := strings.Index(rest, ":"); j > 0 && j < 40 {
							cls += ":" + rest[:j]
						} else if strings.HasPrefix(cls, "import-") {
							cls += ":" + strings.TrimSpace(rest)
							if len(cls) > 110 {
								cls = cls[:110]
							}
						}
					}
					r.Violate(mc.Violation{Class: cls, Msg: b + fmt.Sprintf(" | %s history %v", rt.Name, aPath(path)), Detail: engaDetail{Path: path, Note: rt.Name}}, nil)
				}
				r.Transitions.Add(1)
				r.Outcome("round-trip")
			}
			check(root, nil)
			t := &enga.Tree{Run: r, Depth: depth,
				Menu: func(w *enga.World, path []enga.ABlock) []enga.ABlock { return menu },
				Visit: func(path []enga.ABlock, pre any, child *enga.World, res *enga.Result) bool {
					if res.Err != nil {
						if strings.Contains(res.Err.Error(), "empty") {
							r.Outcome("truncated-empty-set")
							return false
						}
						r.Violate(mc.Violation{Class: "honest-block-fails:" + res.Stage, Msg: fmt.Sprintf("%v | %s history %v", res.Err, rt.Name, aPath(path)), Detail: engaDetail{Path: path, Note: rt.Name}}, nil)
						return false
					}
					check(child, path)
					return true
				},
			}
			t.Only = only
			t.Explore(root)
			r.Sample(map[string]any{"root": rt.Name, "history": aPath([]enga.ABlock{menu[1], menu[len(menu)/3], menu[len(menu)-1]})})
		}
		treeRecheck(r, explore)
		explore(r, nil)
	}
	r.Extra["queries_put_to_both_chains"] = c18QueriesAsked.Load()
	r.Extra["queries_with_non_error_answer_on_the_exporting_chain"] = c18QueriesAnswered.Load()
}

// c18Roots are the genesis configurations the histories start from: the general one, and a
// relayer group of four whose membership changes pile up between two elections.
type c18Root struct {
	Name  string
	Cfg   func() *sim.GenesisCfg
	Menu  []enga.ABlock
	Setup []enga.ABlock // history executed before the exploration starts (a non-initial root)
}

func c18Roots(thorough bool) []c18Root {
	ev := func(es ...enga.Event) enga.ABlock { return enga.ABlock{Events: es} }
	group := []enga.ABlock{
		ev(enga.Event{Kind: "req:addvoter"}),
		ev(enga.Event{Kind: "tx:newvoter"}),
		ev(enga.Event{Kind: "req:removevoter"}),
		ev(enga.Event{Kind: "req:removevoter", Var: "first"}),
		ev(enga.Event{Kind: "req:removevoter", Var: "two"}),
		{Dt: 7},
	}
	// two withdrawal batches in flight; bitcoin may confirm them in either order
	flight := []enga.ABlock{
		ev(enga.Event{Kind: "tx:hashes", N: 1}, enga.Event{Kind: "tx:finalize", Var: "newest"}),
		ev(enga.Event{Kind: "tx:hashes", N: 1}, enga.Event{Kind: "tx:finalize"}),
		ev(enga.Event{Kind: "tx:replace"}),
		ev(enga.Event{Kind: "req:withdraw", N: 1}),
		ev(enga.Event{Kind: "tx:process", N: 1}),
	}
	flightSetup := []enga.ABlock{ev(enga.Event{Kind: "req:withdraw", N: 3}), ev(enga.Event{Kind: "tx:process", N: 1}), ev(enga.Event{Kind: "tx:process", N: 1})}
	return []c18Root{{Name: "general", Cfg: c18Cfg, Menu: c18Menu(thorough)}, {Name: "relayer-group-of-4", Cfg: c18GroupCfg, Menu: group},
		{Name: "two-batches-in-flight", Cfg: c18Cfg, Menu: flight, Setup: flightSetup},
		// a member of the set that was jailed for downtime once, served its term and came back: the
		// record keeps the end of that term for good
		{Name: "validator-that-served-a-jail-term", Cfg: c18JailedOnceCfg, Menu: []enga.ABlock{{}, {Absent: []int{1}}, ev(enga.Event{Kind: "req:lock", N: 1}), ev(enga.Event{Kind: "req:claim", N: 1}), {Dt: 7}}}}
}

func c18JailedOnceCfg() *sim.GenesisCfg {
	g := c18Cfg()
	g.Vals[1].JailedUntil = g.Time.Add(-time.Hour)
	return g
}

func c18RootCfg(name string) *sim.GenesisCfg {
	if name == "relayer-group-of-4" {
		return c18GroupCfg()
	}
	if name == "validator-that-served-a-jail-term" {
		return c18JailedOnceCfg()
	}
	return c18Cfg()
}

func c18RootSetup(name string) []enga.ABlock {
	for _, rt := range c18Roots(true) {
		if rt.Name == name {
			return rt.Setup
		}
	}
	return nil
}

func c18GroupCfg() *sim.GenesisCfg {
	g := sim.DefaultCfg(2, 3)
	b := c08Cfg()
	g.Vals, g.LockingParams, g.RelayerParams = b.Vals, b.LockingParams, b.RelayerParams
	return g
}

func replayC18(detail json.RawMessage) (bool, string) {
	var d engaDetail
	if err := json.Unmarshal(detail, &d); err != nil {
		return false, err.Error()
	}
	w, err := enga.NewWorld(c18RootCfg(d.Note))
	if err != nil {
		return false, err.Error()
	}
	defer w.Close()
	for _, b := range append(append([]enga.ABlock{}, c18RootSetup(d.Note)...), d.Path...) {
		if rr := w.Run(b); rr.Err != nil {
			return false, "history not executable: " + rr.Err.Error()
		}
	}
	bad := c18RoundTrip(w)
	return len(bad) > 0, strings.Join(bad, " ; ")
}

func init() { register(&Check{ID: "C18", Run: runC18, Replay: replayC18}) }
