package checks

import (
	"bufio"
	"bytes"
	"encoding/json"
	"fmt"
	"os"
	"os/exec"
	"reflect"
	"runtime"
	"sort"
	"strings"
	"sync"
	"time"

	abci "github.com/cometbft/cometbft/abci/types"
	codectypes "github.com/cosmos/cosmos-sdk/codec/types"
	cryptocodec "github.com/cosmos/cosmos-sdk/crypto/codec"
	sdk "github.com/cosmos/cosmos-sdk/types"
	txtypes "github.com/cosmos/cosmos-sdk/types/tx"
	"github.com/cosmos/cosmos-sdk/types/tx/signing"
	"github.com/cosmos/gogoproto/proto"
	"github.com/ethereum/go-ethereum/common"
	"github.com/ethereum/go-ethereum/core/types/goattypes"
	goatmodtypes "github.com/goatnetwork/goat/x/goat/types"
	relayertypes "github.com/goatnetwork/goat/x/relayer/types"
	"google.golang.org/protobuf/encoding/protowire"
	"verifharness/enga"
	"verifharness/mc"
	"verifharness/sim"
)

// C19 – no input can crash the node or halt block processing; failures change nothing.

type c19Case struct {
	State string `json:"state"`
	Desc  string `json:"mutation"`
	Kind  string `json:"kind"` // relayer-tx | raw | proposal
	tx    []byte
}

type wireMut struct {
	name string
	out  []byte
}

// mutateWire enumerates single-field mutations of a protobuf encoding (descriptor-free):
// drop, duplicate, boundary integers, empty / longer / shorter byte strings, and the same
// recursively inside length-delimited fields that parse as messages.
func mutateWire(b []byte, depth int, prefix string) []wireMut {
	type fld struct {
		num   protowire.Number
		typ   protowire.Type
		start int
		end   int
		val   []byte
	}
	var fs []fld
	for off := 0; off < len(b); {
		num, typ, n := protowire.ConsumeTag(b[off:])
		if n < 0 {
			return nil
		}
		m := protowire.ConsumeFieldValue(num, typ, b[off+n:])
		if m < 0 {
			return nil
		}
		f := fld{num: num, typ: typ, start: off, end: off + n + m}
		if typ == protowire.BytesType {
			v, _ := protowire.ConsumeBytes(b[off+n:])
			f.val = v
		}
		fs = append(fs, f)
		off = f.end
	}
	var out []wireMut
	rebuild := func(i int, repl []byte) []byte {
		r := append([]byte{}, b[:fs[i].start]...)
		r = append(r, repl...)
		return append(r, b[fs[i].end:]...)
	}
	for i, f := range fs {
		name := fmt.Sprintf("%s%d", prefix, f.num)
		out = append(out, wireMut{name + ":drop", rebuild(i, nil)})
		out = append(out, wireMut{name + ":duplicate", rebuild(i, append(append([]byte{}, b[f.start:f.end]...), b[f.start:f.end]...))})
		tag := protowire.AppendTag(nil, f.num, f.typ)
		switch f.typ {
		case protowire.VarintType:
			for _, v := range []uint64{0, 1, 1 << 31, 1 << 63, 1<<64 - 1} {
				out = append(out, wireMut{fmt.Sprintf("%s:=%d", name, v), rebuild(i, protowire.AppendVarint(append([]byte{}, tag...), v))})
			}
		case protowire.BytesType:
			mk := func(v []byte) []byte { return protowire.AppendBytes(append([]byte{}, tag...), v) }
			out = append(out, wireMut{name + ":empty", rebuild(i, mk(nil))})
			out = append(out, wireMut{name + ":+1byte", rebuild(i, mk(append(append([]byte{}, f.val...), 0)))})
			if len(f.val) > 0 {
				out = append(out, wireMut{name + ":-1byte", rebuild(i, mk(f.val[:len(f.val)-1]))})
				fl := append([]byte{}, f.val...)
				fl[len(fl)/2] ^= 0x80
				out = append(out, wireMut{name + ":bitflip", rebuild(i, mk(fl))})
			}
			out = append(out, wireMut{name + ":33xff", rebuild(i, mk(bytes.Repeat([]byte{0xff}, 33)))})
			out = append(out, wireMut{name + ":1byte", rebuild(i, mk([]byte{7}))})
			if depth > 0 && len(f.val) > 1 {
				for _, sub := range mutateWire(f.val, depth-1, name+".") {
					out = append(out, wireMut{sub.name, rebuild(i, mk(sub.out))})
				}
			}
		}
	}
	return out
}

// c19Revote decodes mutated message bytes into a fresh message of the same type and replaces its vote by
// a genuine quorum vote over the mutated content (nil when the bytes do not decode or the message
// cannot say what it wants signed).
func c19Revote(w *enga.World, orig sdk.Msg, mutated []byte) (out []byte) {
	defer func() {
		if recover() != nil {
			out = nil
		}
	}()
	fresh := reflect.New(reflect.TypeOf(orig).Elem()).Interface()
	if err := proto.Unmarshal(mutated, fresh.(proto.Message)); err != nil {
		return nil
	}
	vm := fresh.(relayertypes.IVoteMsg)
	f := reflect.ValueOf(fresh).Elem().FieldByName("Vote")
	if !f.IsValid() || !f.CanSet() {
		return nil
	}
	f.Set(reflect.ValueOf(w.Vote(vm.MethodName(), vm.VoteSigDoc())))
	bz, err := proto.Marshal(fresh.(proto.Message))
	if err != nil {
		return nil
	}
	return bz
}

// c19SignRaw wraps raw message bytes into a correctly signed transaction.
func c19SignRaw(w *enga.World, key sim.Key, seqOff uint64, typeURL string, msgBytes []byte, timeout uint64) []byte {
	body := &txtypes.TxBody{Messages: []*codectypes.Any{{TypeUrl: typeURL, Value: msgBytes}}, TimeoutHeight: timeout}
	bodyBz, err := proto.Marshal(body)
	must(err)
	pkAny, err := codectypes.NewAnyWithValue(key.Pub())
	must(err)
	num, seq, _ := w.N.Account(w.N.Ctx(), key.Addr())
	ai := &txtypes.AuthInfo{SignerInfos: []*txtypes.SignerInfo{{PublicKey: pkAny, ModeInfo: &txtypes.ModeInfo{Sum: &txtypes.ModeInfo_Single_{Single: &txtypes.ModeInfo_Single{Mode: signing.SignMode_SIGN_MODE_DIRECT}}}, Sequence: seq + seqOff}},
		Fee: &txtypes.Fee{GasLimit: 1e8}}
	aiBz, err := proto.Marshal(ai)
	must(err)
	doc := &txtypes.SignDoc{BodyBytes: bodyBz, AuthInfoBytes: aiBz, ChainId: w.N.Cfg.ChainID, AccountNumber: num}
	docBz, err := proto.Marshal(doc)
	must(err)
	sig, err := key.Priv.Sign(docBz)
	must(err)
	raw := &txtypes.TxRaw{BodyBytes: bodyBz, AuthInfoBytes: aiBz, Signatures: [][]byte{sig}}
	out, err := proto.Marshal(raw)
	must(err)
	return out
}

func c19State(name string) *enga.World {
	w, err := enga.NewWorld(c08Cfg())
	must(err)
	w.Run(enga.ABlock{})
	if name == "elected" {
		// after an election the proposer changed and a voter registration is pending
		for _, b := range []enga.ABlock{{Events: []enga.Event{{Kind: "req:addvoter"}, {Kind: "req:withdraw", N: 1}}}, {Dt: 7, Events: []enga.Event{{Kind: "req:cancel"}}}} {
			if rr := w.Run(b); rr.Err != nil {
				panic(rr.Err)
			}
		}
	}
	if name == "removal-queued" {
		// a voter's removal is already queued for the next election
		if rr := w.Run(enga.ABlock{Events: []enga.Event{{Kind: "req:removevoter"}}}); rr.Err != nil {
			panic(rr.Err)
		}
	}
	if name == "busy" {
		for _, b := range []enga.ABlock{
			{Events: []enga.Event{{Kind: "tx:hashes", N: 2}, {Kind: "req:withdraw", N: 3}, {Kind: "req:withdraw", N: 1, Var: "bad-address"}, {Kind: "req:addvoter"}, {Kind: "req:claim", N: 2}}},
			{Events: []enga.Event{{Kind: "tx:deposits", N: 2}, {Kind: "tx:process", N: 2}, {Kind: "req:cancel"}, {Kind: "req:claim", N: 2}, {Kind: "req:withdraw", N: 1, Var: "bad-address"}}},
			{Events: []enga.Event{{Kind: "tx:hashes", N: 1}}}, // the processing batch's transaction is now provable: finalisation messages are well-formed
		} {
			if rr := w.Run(b); rr.Err != nil {
				panic(rr.Err)
			}
		}
	}
	if name == "big-batch" {
		// the largest batches the chain admits: 20 withdrawals being processed by one bitcoin
		// transaction (finalising it queues 20 paid notices at once, more than two blocks hand over)
		// and 20 more waiting to be processed
		for _, b := range []enga.ABlock{
			{Events: []enga.Event{{Kind: "tx:hashes", N: 2}, {Kind: "req:withdraw", N: 20}}},
			{Events: []enga.Event{{Kind: "tx:process", N: 20}, {Kind: "req:withdraw", N: 20}}},
			{Events: []enga.Event{{Kind: "tx:hashes", N: 1}}},
		} {
			if rr := w.Run(b); rr.Err != nil {
				panic(rr.Err)
			}
		}
	}
	return w
}

func relayerKey(w *enga.World) sim.Key {
	rel, _ := w.Relayer()
	for _, m := range w.Members {
		if m.AddrStr() == rel.Proposer {
			return m.Key
		}
	}
	panic("no proposer")
}

// c19Cases builds the deterministic case list of a state.
func c19Cases(w *enga.World, state string, thorough bool) []*c19Case {
	var cases []*c19Case
	key := relayerKey(w)
	depth := 2
	if thorough {
		depth = 3
	}
	events := []enga.Event{{Kind: "tx:hashes", N: 2}, {Kind: "tx:hashes", N: 1}, {Kind: "tx:deposits", N: 2}, {Kind: "tx:newpubkey"}, {Kind: "tx:process", N: 1}, {Kind: "tx:replace"},
		{Kind: "tx:finalize"}, {Kind: "tx:approve"}, {Kind: "tx:consolidation"}, {Kind: "tx:newvoter"}, {Kind: "tx:accept"}}
	if state == "big-batch" {
		events = append(events, enga.Event{Kind: "tx:process", N: 32})
	}
	for _, e := range events {
		msg, _ := w.BuildMsg(e)
		if msg == nil {
			continue
		}
		bz, err := proto.Marshal(msg.(proto.Message))
		must(err)
		url := sdk.MsgTypeURL(msg)
		cases = append(cases, &c19Case{State: state, Kind: "relayer-tx", Desc: fmt.Sprintf("%s well-formed (%s n=%d)", url, e.Kind, e.N), tx: c19SignRaw(w, key, 0, url, bz, 0)})
		if state == "big-batch" {
			continue // this state is about the size of well-formed messages; their mutations are covered in the others
		}
		muts := mutateWire(bz, depth, "")
		for _, m := range muts {
			cases = append(cases, &c19Case{State: state, Kind: "relayer-tx", Desc: url + " " + m.name, tx: c19SignRaw(w, key, 0, url, m.out, 0)})
		}
		// A mutation of a voted message normally dies on its vote (the signature covers the original
		// payload), so the handler behind the vote never sees it. Every mutation that still decodes is
		// therefore delivered a second time with a genuine quorum vote over the *mutated* content: what a
		// relayer quorum can be brought to sign (an empty hash list, a zero id, a boundary fee ...) must
		// be applied or refused without harming the blocks after it either.
		if _, voted := msg.(relayertypes.IVoteMsg); voted {
			seen := map[string]bool{string(bz): true}
			for _, m := range muts {
				rb := c19Revote(w, msg, m.out)
				if rb == nil || seen[string(rb)] {
					continue
				}
				seen[string(rb)] = true
				cases = append(cases, &c19Case{State: state, Kind: "relayer-tx", Desc: url + " " + m.name + " (re-voted by a genuine quorum)", tx: c19SignRaw(w, key, 0, url, rb, 0)})
			}
		}
		if thorough {
			// deviation bound 2: a second single mutation applied to every singly mutated top-level encoding
			top := mutateWire(bz, 0, "")
			for i, m1 := range top {
				for j, m2 := range mutateWire(m1.out, 0, "") {
					if (i+j)%3 != 0 {
						continue // deterministic third of the pairs keeps the run inside its budget
					}
					cases = append(cases, &c19Case{State: state, Kind: "relayer-tx", Desc: url + " " + m1.name + " & " + m2.name, tx: c19SignRaw(w, key, 0, url, m2.out, 0)})
				}
			}
		}
	}
	if state == "big-batch" {
		return cases
	}
	cases = append(cases, c19BitmapCases(w, state, key)...)
	// raw truncations of a well-formed transaction
	if msg, _ := w.BuildMsg(enga.Event{Kind: "tx:hashes", N: 1}); msg != nil {
		full := w.N.SignFor(key, 0, 0, msg)
		for i := 0; i < len(full); i++ {
			if i < 64 || i%7 == 0 {
				cases = append(cases, &c19Case{State: state, Kind: "raw", Desc: fmt.Sprintf("tx truncated to %d of %d bytes", i, len(full)), tx: full[:i]})
			}
		}
		for _, m := range mutateWire(full, 2, "txraw.") {
			cases = append(cases, &c19Case{State: state, Kind: "raw", Desc: m.name, tx: m.out})
		}
	}
	// proposals: mutations of the execution-block message
	ethKey := w.N.Cfg.Vals[w.N.Cfg.NodeVal].Key
	_, payload, err := w.N.BuildEthBlockTx(sim.EthBlockOpts{})
	must(err)
	ethMsg := &goatmodtypes.MsgNewEthBlock{Proposer: ethKey.AddrStr(), Payload: payload}
	ebz, err := proto.Marshal(ethMsg)
	must(err)
	h := uint64(w.N.Height + 1)
	for _, m := range mutateWire(ebz, 2, "") {
		cases = append(cases, &c19Case{State: state, Kind: "proposal", Desc: "MsgNewEthBlock " + m.name, tx: c19SignRaw(w, ethKey, 0, ethBlockURL, m.out, h)})
	}
	// system-transaction lists that disagree with what is due, with a consistent count byte
	nDue := int(payload.ExtraData[0])
	if nDue > 0 {
		type cut struct {
			name string
			keep func(i int) bool
		}
		ctx0, _ := w.N.Ctx().CacheContext()
		btcDue, err := w.N.App.BitcoinKeeper.DequeueBitcoinModuleTx(ctx0)
		must(err)
		nb := len(btcDue)
		for _, c := range []cut{
			{"all-omitted", func(i int) bool { return false }},
			{"first-omitted", func(i int) bool { return i != 0 }},
			{"last-omitted", func(i int) bool { return i != nDue-1 }},
			{"locking-part-omitted", func(i int) bool { return i < nb }},
			{"bridge-part-omitted", func(i int) bool { return i >= nb }},
			{"only-first", func(i int) bool { return i == 0 }},
		} {
			c := c
			tx, _, err := w.N.BuildEthBlockTx(sim.EthBlockOpts{Rehash: true, MutatePayload: func(p *goatmodtypes.ExecutionPayload) {
				var kept [][]byte
				for i := 0; i < nDue; i++ {
					if c.keep(i) {
						kept = append(kept, p.Transactions[i])
					}
				}
				p.Transactions = append(kept, p.Transactions[nDue:]...)
				p.ExtraData[0] = byte(len(kept))
			}})
			must(err)
			cases = append(cases, &c19Case{State: state, Kind: "proposal", Desc: fmt.Sprintf("system-txs %s (%d due, %d bridge)", c.name, nDue, nb), tx: tx})
		}
	}
	// execution-layer request lists from a small grammar
	reqs := map[string][][]byte{
		"unknown-type":      {{0x63, 1, 2, 3}},
		"empty-item":        {{}},
		"short-gas":         {{goattypes.GasRequestType, 1, 2, 3}},
		"short-lock":        {{goattypes.LockRequestType, 1, 2, 3}},
		"short-withdraw":    {{goattypes.WithdrawalRequestType, 1}},
		"trailing-bytes":    append(payload.Requests, []byte{goattypes.GasRequestType}),
		"256-items":         bytes.Split(bytes.Repeat([]byte{goattypes.Cancel1RequestType, 0}, 256), []byte{0})[:256],
		"claim-unknown-val": {append([]byte{goattypes.ClaimRequestType}, make([]byte, 48)...)},
		"unlock-unknown":    {append([]byte{goattypes.UnlockRequestType}, make([]byte, 100)...)},
		"huge-lock":         {append(append([]byte{goattypes.LockRequestType}, ethKey.EthAddr().Bytes()...), append(make([]byte, 20), bytes.Repeat([]byte{0xff}, 32)...)...)},
		"two-gas":           {append([]byte{goattypes.GasRequestType}, make([]byte, 80)...)},
		// a well-formed lock of a token that is not listed, to the node's own (existing, active) validator
		"lock-unlisted-token": {append(append([]byte{goattypes.LockRequestType}, ethKey.EthAddr().Bytes()...), append(bytes.Repeat([]byte{0x77}, 20), append(make([]byte, 31), 5)...)...)},
		"rbf-unknown-id":      {append([]byte{goattypes.ReplaceByFeeRequestType}, make([]byte, 16)...)},
		"cancel-unknown-id":   {append([]byte{goattypes.Cancel1RequestType}, make([]byte, 8)...)},
	}
	// well-formed membership requests that the relayer module has to weigh against what is already queued
	{
		rel, _ := w.Relayer()
		rm := func(addrs ...string) [][]byte {
			var rr goattypes.RelayerRequests
			for _, a := range addrs {
				acc, err := sdk.AccAddressFromBech32(a)
				must(err)
				rr.Removes = append(rr.Removes, &goattypes.RemoveVoterRequest{Voter: common.BytesToAddress(acc)})
			}
			return rr.Encode()
		}
		reqs["remove-proposer"] = rm(rel.Proposer)
		reqs["remove-all-members"] = rm(append([]string{rel.Proposer}, rel.Voters...)...)
		reqs["remove-proposer-twice"] = rm(rel.Proposer, rel.Proposer)
		if len(rel.Voters) > 0 {
			reqs["remove-voter"] = rm(rel.Voters[0])
			reqs["remove-voter-then-proposer"] = rm(rel.Voters[0], rel.Proposer)
		}
	}
	names := make([]string, 0, len(reqs))
	for name := range reqs {
		names = append(names, name)
	}
	sort.Strings(names) // workers rebuild this list and address cases by index
	for _, name := range names {
		name, rq := name, reqs[name]
		tx, _, err := w.N.BuildEthBlockTx(sim.EthBlockOpts{Rehash: true, MutatePayload: func(p *goatmodtypes.ExecutionPayload) {
			if name == "trailing-bytes" || name == "two-gas" {
				p.Requests = rq
			} else {
				p.Requests = append(append([][]byte{}, p.Requests...), rq...)
			}
		}})
		must(err)
		cases = append(cases, &c19Case{State: state, Kind: "proposal", Desc: "requests " + name, tx: tx})
	}
	// stable order
	return cases
}

func c19BitmapCases(w *enga.World, state string, key sim.Key) []*c19Case {
	var out []*c19Case
	for l := 0; l <= 33; l++ {
		msg, _ := w.BuildMsg(enga.Event{Kind: "tx:consolidation"})
		if msg == nil {
			continue
		}
		bz, err := proto.Marshal(msg.(proto.Message))
		must(err)
		// field 3 of MsgNewConsolidation is the vote; its field 3 is the bitmap
		out = append(out, &c19Case{State: state, Kind: "relayer-tx", Desc: fmt.Sprintf("MsgNewConsolidation vote bitmap of %d bytes", l),
			tx: c19SignRaw(w, key, 0, sdk.MsgTypeURL(msg), c19SetBitmap(bz, l), 0)})
	}
	return out
}

// c19SetBitmap rewrites Votes.voters (field 3 of the vote sub-message, field 3 of the message).
func c19SetBitmap(msg []byte, l int) []byte {
	var out []byte
	for off := 0; off < len(msg); {
		num, typ, n := protowire.ConsumeTag(msg[off:])
		m := protowire.ConsumeFieldValue(num, typ, msg[off+n:])
		if num == 3 && typ == protowire.BytesType {
			vote, _ := protowire.ConsumeBytes(msg[off+n:])
			var nv []byte
			for vo := 0; vo < len(vote); {
				vn, vt, k := protowire.ConsumeTag(vote[vo:])
				vm := protowire.ConsumeFieldValue(vn, vt, vote[vo+k:])
				if vn != 3 {
					nv = append(nv, vote[vo:vo+k+vm]...)
				}
				vo += k + vm
			}
			nv = protowire.AppendBytes(protowire.AppendTag(nv, 3, protowire.BytesType), bytes.Repeat([]byte{0x01}, l))
			out = protowire.AppendBytes(protowire.AppendTag(out, 3, protowire.BytesType), nv)
		} else {
			out = append(out, msg[off:off+n+m]...)
		}
		off += n + m
	}
	return out
}

type c19Result struct {
	I       int    `json:"i"`
	Phase   string `json:"phase"` // START | DONE
	Class   string `json:"class,omitempty"`
	Msg     string `json:"msg,omitempty"`
	Outcome string `json:"outcome,omitempty"`
}

var c19Stores = []string{"relayer", "bitcoin", "locking", "goat", "consensus"}

func c19Dump(w *enga.World) sim.Dump {
	d := w.N.DumpStores(w.N.Ctx(), c19Stores...)
	// the beacon root is the block hash, which covers the transaction list
	var g [][2][]byte
	for _, kv := range d["goat"] {
		if len(kv[0]) == 1 && kv[0][0] == 2 {
			continue
		}
		g = append(g, kv)
	}
	d["goat"] = g
	return d
}

// c19Deliver runs one case through CheckTx, ProcessProposal and FinalizeBlock.
func c19Deliver(w *enga.World, c *c19Case) (class, msg, outcome string) {
	guard := func(stage string, f func()) (p any) {
		defer func() { p = recover() }()
		f()
		return nil
	}
	// CheckTx
	var cres *abci.ResponseCheckTx
	if p := guard("checktx", func() { cres, _ = w.N.CheckTx(c.tx) }); p != nil {
		return "panic-escapes-checktx", fmt.Sprint(p), ""
	}
	if cres != nil && cres.Code == 0 {
		// admitted: take it out again so that the next case starts from the same mempool
		if dtx, err := w.N.TxCfg.TxDecoder()(c.tx); err == nil {
			_ = w.N.App.Mempool().Remove(dtx)
		}
	}
	blk := &sim.Block{TimeDelta: time.Second}
	txs := [][]byte{c.tx}
	if c.Kind != "proposal" {
		eth, _, err := w.N.BuildEthBlockTx(sim.EthBlockOpts{})
		must(err)
		txs = [][]byte{eth, c.tx}
	}
	var pr *abci.ResponseProcessProposal
	var perr error
	if p := guard("process", func() { pr, perr = w.N.Process(blk, txs) }); p != nil {
		return "panic-escapes-process-proposal", fmt.Sprint(p), ""
	}
	accepted := perr == nil && pr.Status == abci.ResponseProcessProposal_ACCEPT
	if c.Kind == "proposal" && !accepted {
		return "", "", "proposal-rejected"
	}
	// FinalizeBlock on forks: the block with and without the transaction
	x, err := w.Fork()
	must(err)
	defer x.Close()
	var fr *abci.ResponseFinalizeBlock
	var ferr error
	if p := guard("finalize", func() { fr, ferr = x.N.Finalize(blk, txs) }); p != nil {
		return "panic-escapes-finalize-block", fmt.Sprint(p), ""
	}
	if ferr != nil {
		return "finalize-block-fails-because-of-transaction-content", ferr.Error(), ""
	}
	must(x.N.Commit(blk, txs, fr))
	idx := len(txs) - 1
	if fr.TxResults[idx].Code == 0 {
		{
			// what an applied proposal (request list) or transaction left behind (queues of things to
			// hand over, membership changes) must not stop the blocks after it, including the one that
			// holds the next relayer election
			for _, nb := range []enga.ABlock{{Dt: 7}, {Dt: 1}} {
				var rr *enga.Result
				if p := guard("follow-up", func() { rr = x.Run(nb) }); p != nil {
					return "panic-in-block-after-applied-" + c.Kind, fmt.Sprint(p), ""
				}
				if rr.Err != nil {
					return "block-processing-halts-after-applied-" + c.Kind, fmt.Sprintf("%s: %v", rr.Stage, rr.Err), ""
				}
			}
		}
		return "", "", "applied"
	}
	ref, err := w.Fork()
	must(err)
	defer ref.Close()
	rtx := txs[:idx]
	rfr, err := ref.N.Finalize(blk, rtx)
	must(err)
	must(ref.N.Commit(blk, rtx, rfr))
	if d := c19Dump(x).Diff(c19Dump(ref)); len(d) > 0 {
		return "failed-transaction-changed-state", fmt.Sprint(d), ""
	}
	return "", "", "rejected-without-effect"
}

// C19Worker is the crash-contained worker: it delivers cases [from,to) of a state and
// prints one JSON line before and after each case.
func C19Worker(state string, from, to int, thorough bool) {
	w := c19State(state)
	cases := c19Cases(w, state, thorough)
	enc := json.NewEncoder(os.Stdout)
	for i := from; i < to && i < len(cases); i++ {
		_ = enc.Encode(c19Result{I: i, Phase: "START"})
		class, msg, outcome := c19Deliver(w, cases[i])
		_ = enc.Encode(c19Result{I: i, Phase: "DONE", Class: class, Msg: msg, Outcome: outcome})
	}
	fmt.Println(`{"phase":"END"}`)
}

func runC19(r *mc.Run) {
	r.Rule = "for five reachable states (fresh; right after an election with a proposer that has not accepted yet; busy: voted hashes, deposits, pending/processing/cancelling withdrawals, pending voter; a voter removal already queued; big-batch: 20 withdrawals in one processing batch and 20 more pending, well-formed messages only, incl. a 20-id processing message and the finalisation that queues 20 paid notices): every single wire-level mutation (drop, duplicate, boundary integers, empty / +1 / -1 / bit-flipped / 33-byte / 1-byte strings, recursively two levels deep) of a well-formed instance of every relayer and bridge message, correctly signed so that it reaches the handler; every mutation of a voted message that still decodes once more with a genuine quorum vote over the mutated content (so that the handler behind the vote is the deciding rule, e.g. an empty hash list voted at tip+1), followed through the next blocks; vote bitmaps of every length 0..33; truncations and wire mutations of the raw transaction; wire mutations of the execution-block message and an execution-layer request grammar (malformed items and well-formed membership removals), every applied proposal or transaction being followed by the election block and one more; each delivered through CheckTx, ProcessProposal and FinalizeBlock in crash-contained worker processes"
	r.Assumptions = []string{"a proposal rejected by ProcessProposal is not forced into FinalizeBlock (honest validators never finalise it; engine verdicts at finalisation are C09's subject)", "account sequences are not part of 'state exactly as it was'"}
	self, err := os.Executable()
	must(err)
	// "elected": right after an election the new proposer has not accepted its role yet - what a
	// failed transaction of its may leave behind includes that flag
	states := []string{"fresh", "busy", "removal-queued", "elected", "big-batch"}
	for _, state := range states {
		w := c19State(state)
		cases := c19Cases(w, state, r.Thorough())
		w.Close()
		r.States.Add(int64(len(cases)))
		r.Sample(map[string]any{"state": state, "cases": len(cases), "examples": []string{cases[1].Desc, cases[len(cases)/2].Desc, cases[len(cases)-1].Desc}})
		workers := runtime.NumCPU()
		per := (len(cases) + workers - 1) / workers
		var wg sync.WaitGroup
		for wk := 0; wk < workers; wk++ {
			from, to := wk*per, (wk+1)*per
			if from >= len(cases) {
				break
			}
			if to > len(cases) {
				to = len(cases)
			}
			wg.Add(1)
			go func(from, to int) {
				defer wg.Done()
				for from < to {
					th := "quick"
					if r.Thorough() {
						th = "thorough"
					}
					cmd := exec.Command(self, "c19worker", state, fmt.Sprint(from), fmt.Sprint(to), th)
					out, err := cmd.StdoutPipe()
					must(err)
					var stderr bytes.Buffer
					cmd.Stderr = &stderr
					must(cmd.Start())
					sc := bufio.NewScanner(out)
					sc.Buffer(make([]byte, 1<<20), 1<<24)
					last, ended := -1, false
					for sc.Scan() {
						var res c19Result
						if json.Unmarshal(sc.Bytes(), &res) != nil {
							continue
						}
						switch res.Phase {
						case "START":
							last = res.I
						case "DONE":
							r.Transitions.Add(3)
							r.Validated.Add(3)
							if res.Outcome != "" {
								r.Outcome(res.Outcome)
							}
							if res.Class != "" {
								c := cases[res.I]
								r.Violate(mc.Violation{Class: res.Class + ":" + c19Short(c.Desc), Msg: fmt.Sprintf("%s | state %s | %s", res.Msg, state, c.Desc), Detail: c}, nil)
							}
							last = -1
							from = res.I + 1
						case "END":
							ended = true
						}
					}
					_ = cmd.Wait()
					if ended {
						return
					}
					if last >= 0 {
						// the worker died while delivering case `last`: in production the node would have crashed
						c := cases[last]
						tail := stderr.String()
						if len(tail) > 600 {
							tail = tail[:600]
						}
						r.Violate(mc.Violation{Class: "node-crash:" + c19Short(c.Desc), Msg: fmt.Sprintf("worker process died | state %s | %s | %s", state, c.Desc, tail), Detail: c}, nil)
						r.Outcome("node-crash")
						from = last + 1
					} else {
						r.Cap("worker exited without a case in flight: " + strings.TrimSpace(stderr.String()))
						return
					}
				}
			}(from, to)
		}
		wg.Wait()
	}
}

func c19Short(desc string) string {
	// message type + field path + mutation kind (no values)
	f := strings.Fields(desc)
	if len(f) > 2 {
		f = f[:2]
	}
	s := strings.Join(f, " ")
	if i := strings.LastIndex(s, "."); i > 0 && strings.HasPrefix(s, "/") {
		s = s[strings.Index(s, "Msg"):]
	}
	return s
}

func replayC19(detail json.RawMessage) (bool, string) {
	return false, "re-run bin/check C19 quick; cases are regenerated deterministically per state"
}

var _ = cryptocodec.RegisterInterfaces

func init() { register(&Check{ID: "C19", Run: runC19, Replay: replayC19}) }
