package checks

import (
	"bytes"
	"encoding/json"
	"fmt"
	"strings"
	"time"

	abci "github.com/cometbft/cometbft/abci/types"
	sdk "github.com/cosmos/cosmos-sdk/types"
	goatmodtypes "github.com/goatnetwork/goat/x/goat/types"
	"verifharness/enga"
	"verifharness/mc"
	"verifharness/sim"
)

// C09 – execution head advances only by valid child blocks; engine faults commit nothing.

func engaCfg() *sim.GenesisCfg {
	g := sim.DefaultCfg(1, 1)
	g.Vals[0].Power = 5
	g.Vals[0].Locking = sdk.NewCoins(sdk.NewCoin("btc", sim.Theta.MulRaw(5)))
	g.LockingParams.UnlockDuration = 2e9
	g.LockingParams.ExitingDuration = 5e9
	return g
}

// engaMenu is the queue-filling menu shared by the Engine-A checks.
func engaMenu(rich bool) []enga.ABlock {
	m := []enga.ABlock{
		{},
		{Events: []enga.Event{{Kind: "tx:hashes", N: 1}}},
		{Events: []enga.Event{{Kind: "tx:hashes", N: 3}}},
		{Events: []enga.Event{{Kind: "tx:deposits", N: 1}}},
		{Events: []enga.Event{{Kind: "tx:deposits", N: 9}}},
		{Events: []enga.Event{{Kind: "req:withdraw", N: 2}, {Kind: "req:claim", N: 1}}},
		{Events: []enga.Event{{Kind: "req:withdraw", N: 3, Var: "bad-address"}}},
		{Events: []enga.Event{{Kind: "tx:process", N: 2}}},
		{Events: []enga.Event{{Kind: "tx:hashes", N: 1}, {Kind: "tx:deposits", N: 1}}},
		{Events: []enga.Event{{Kind: "tx:finalize"}}},
		{Events: []enga.Event{{Kind: "req:unlock", N: 2}, {Kind: "req:grant", N: 50}}, Dt: 3},
		{FailEth: true},
		{Mode: "built"},
	}
	if rich {
		m = append(m,
			enga.ABlock{Events: []enga.Event{{Kind: "req:cancel"}}},
			enga.ABlock{Events: []enga.Event{{Kind: "tx:approve"}}},
			enga.ABlock{Events: []enga.Event{{Kind: "req:claim", N: 17}}},
			enga.ABlock{Events: []enga.Event{{Kind: "req:unlock", N: 17}}, Dt: 3},
			enga.ABlock{Restart: true},
			enga.ABlock{Abandon: 2, Events: []enga.Event{{Kind: "tx:deposits", N: 1}}},
		)
	}
	return m
}

// treeRecheck makes every violation of a tree search that carries its history be re-executed
// on a fresh root (same monitors, reporting into a probe run) before it is believed.
func treeRecheck(r *mc.Run, explore func(p *mc.Run, only []enga.ABlock)) {
	if r.IsProbe() {
		return
	}
	r.Recheck = func(v mc.Violation) bool {
		d, ok := v.Detail.(engaDetail)
		if !ok || len(d.Path) == 0 {
			return true
		}
		p := r.Probe()
		explore(p, d.Path)
		return p.Has(v.Class)
	}
}

type engaDetail struct {
	Path  []enga.ABlock `json:"path"`
	Fault string        `json:"fault,omitempty"`
	Note  string        `json:"note,omitempty"`
}

func aPath(p []enga.ABlock) []string {
	var out []string
	for _, b := range p {
		out = append(out, b.String())
	}
	return out
}

type faultSpec struct {
	Call  int
	Kind  sim.FaultKind
	Phase string
	// expectation
	Expect string // prepare-fails | process-rejects | finalize-errors | tolerated
}

func c09Faults() []faultSpec {
	var fs []faultSpec
	for _, k := range []sim.FaultKind{sim.FaultError, sim.FaultInvalid, sim.FaultSyncing, sim.FaultAccepted, sim.FaultNoPayloadID, sim.FaultStall, sim.FaultOutage} {
		fs = append(fs, faultSpec{0, k, "prepare.forkchoiceUpdated", "prepare-fails"})
	}
	for _, k := range []sim.FaultKind{sim.FaultError, sim.FaultStall, sim.FaultOutage} {
		fs = append(fs, faultSpec{1, k, "prepare.getPayload", "prepare-fails"})
	}
	// a call answered (with an error) only after 1.5 s is an engine that errors, wherever it happens
	for _, k := range []sim.FaultKind{sim.FaultError, sim.FaultInvalid, sim.FaultSyncing, sim.FaultAccepted, sim.FaultOutage, sim.FaultStall} {
		fs = append(fs, faultSpec{2, k, "process.newPayload", "process-rejects"})
	}
	for _, c := range []int{3, 4} {
		ph := "finalize.newPayload"
		if c == 4 {
			ph = "finalize.forkchoiceUpdated"
		}
		// an engine that goes away without answering (connection cut, nothing listening for 0.9 s) is an
		// engine that errors: the block must not be committed
		fs = append(fs, faultSpec{c, sim.FaultOutage, ph, "finalize-errors"}, faultSpec{c, sim.FaultStall, ph, "finalize-errors"})
		fs = append(fs, faultSpec{c, sim.FaultError, ph, "finalize-errors"}, faultSpec{c, sim.FaultInvalid, ph, "finalize-errors"},
			faultSpec{c, sim.FaultSyncing, ph, "tolerated"}, faultSpec{c, sim.FaultAccepted, ph, "tolerated"})
	}
	return fs
}

func sameFinalize(a, b *abci.ResponseFinalizeBlock) string {
	if !bytes.Equal(a.AppHash, b.AppHash) {
		return fmt.Sprintf("app hash %x vs %x", a.AppHash, b.AppHash)
	}
	if len(a.TxResults) != len(b.TxResults) {
		return "tx result count"
	}
	for i := range a.TxResults {
		x, y := a.TxResults[i], b.TxResults[i]
		if x.Code != y.Code || x.GasUsed != y.GasUsed || x.GasWanted != y.GasWanted || x.Codespace != y.Codespace || !bytes.Equal(x.Data, y.Data) {
			return fmt.Sprintf("tx %d result (%d,%d) vs (%d,%d)", i, x.Code, x.GasUsed, y.Code, y.GasUsed)
		}
	}
	if fmt.Sprint(a.ValidatorUpdates) != fmt.Sprint(b.ValidatorUpdates) {
		return "validator updates"
	}
	return ""
}

func sysTxsOfPrepare(calls []sim.Call) [][]byte {
	for _, c := range calls {
		if c.Method == "forkchoiceUpdatedV3" && c.HasAttrs {
			return c.GoatTxs
		}
	}
	return nil
}

// c09FaultEnum injects every single fault into the block b executed from state w.
// c09FaultPairs (thorough): every pair of faults on two different engine calls of one block.
// The expectation is that of the earlier fault that stops the block.
func c09FaultPairs(r *mc.Run, w *enga.World, path []enga.ABlock, b enga.ABlock) {
	faults := c09Faults()
	type pair struct{ a, b faultSpec }
	var pairs []pair
	for _, f1 := range faults {
		for _, f2 := range faults {
			if f1.Call < f2.Call && f1.Kind != sim.FaultStall && f2.Kind != sim.FaultStall && f1.Kind != sim.FaultOutage && f2.Kind != sim.FaultOutage {
				pairs = append(pairs, pair{f1, f2})
			}
		}
	}
	mc.Parallel(len(pairs), 8, func(i int) {
		p := pairs[i]
		x, err := w.Fork()
		must(err)
		defer x.Close()
		before := x.N.DumpStores(x.N.Ctx()).Hash()
		x.N.EL.SetFaults(map[int]sim.FaultKind{p.a.Call: p.a.Kind, p.b.Call: p.b.Kind})
		res := x.Run(b)
		r.Transitions.Add(1)
		r.Validated.Add(1)
		committed := res.Err == nil && res.Finalize != nil
		mustAbort := p.a.Expect != "tolerated" || p.b.Expect != "tolerated"
		if committed == mustAbort {
			pp := append(append([]enga.ABlock{}, path...), b)
			r.Violate(mc.Violation{Class: fmt.Sprintf("fault-pair-verdict:%s+%s", p.a.Phase, p.b.Phase),
				Msg:    fmt.Sprintf("faults %s@%s and %s@%s: committed=%v | history %v", p.a.Kind, p.a.Phase, p.b.Kind, p.b.Phase, committed, aPath(pp)),
				Detail: engaDetail{Path: pp, Fault: fmt.Sprintf("%s@%d+%s@%d", p.a.Kind, p.a.Call, p.b.Kind, p.b.Call)}}, nil)
		}
		if !committed {
			if res.Stage == "finalize" {
				must(x.N.Restart())
			}
			if x.N.DumpStores(x.N.Ctx()).Hash() != before {
				pp := append(append([]enga.ABlock{}, path...), b)
				r.Violate(mc.Violation{Class: "state-persisted-from-aborted-block", Msg: fmt.Sprintf("fault pair | history %v", aPath(pp)), Detail: engaDetail{Path: pp}}, nil)
			}
		}
		r.Outcome("fault-pair")
	})
}

func c09FaultEnum(r *mc.Run, w *enga.World, path []enga.ABlock, b enga.ABlock) {
	viol := func(class, msg string, f faultSpec) {
		p := append(append([]enga.ABlock{}, path...), b)
		r.Violate(mc.Violation{Class: class, Msg: fmt.Sprintf("%s | fault %s at %s | history %v", msg, f.Kind, f.Phase, aPath(p)), Detail: engaDetail{Path: p, Fault: fmt.Sprintf("%s@%d", f.Kind, f.Call)}}, nil)
	}
	ref, err := w.Fork()
	must(err)
	defer ref.Close()
	resRef := ref.Run(b)
	if resRef.Err != nil || resRef.Finalize == nil {
		return // not an executable block in this state (covered by other checks)
	}
	refDump := ref.N.DumpStores(ref.N.Ctx()).Hash()
	refSys := sysTxsOfPrepare(resRef.Calls)
	if len(resRef.Calls) != 5 {
		r.Cap(fmt.Sprintf("fault-free block made %d engine calls (expected 5)", len(resRef.Calls)))
		return
	}
	faults := c09Faults()
	mc.Parallel(len(faults), 8, func(i int) {
		f := faults[i]
		x, err := w.Fork()
		must(err)
		hung := false
		defer func() {
			if !hung {
				x.Close()
			}
		}()
		before := x.N.DumpStores(x.N.Ctx()).Hash()
		x.N.EL.SetFaults(map[int]sim.FaultKind{f.Call: f.Kind})
		var res *enga.Result
		if f.Kind == sim.FaultOutage {
			// go-ethereum's RPC client can lose a request that was written just before the connection
			// died (the read error is handled before the send is acknowledged, and that one request is
			// exempted from cancellation): the call then waits for as long as its context lives, and
			// FinalizeBlock / ProcessProposal pass a context without deadline. A node in that state
			// commits nothing and has to be restarted by its operator; for the property that is "not
			// committed". The harness cannot interrupt the call: it abandons that instance and counts it.
			ch := make(chan *enga.Result, 1)
			go func() { defer mc.Guard(); ch <- x.Run(b) }()
			select {
			case res = <-ch:
			case <-time.After(25 * time.Second):
				hung = true
				r.Outcome("engine-call-never-returns-after-connection-loss:" + f.Phase)
				r.Transitions.Add(1)
				r.Validated.Add(1)
				return
			}
		} else {
			res = x.Run(b)
		}
		r.Transitions.Add(1)
		r.Validated.Add(1)
		r.Outcome(f.Expect)
		committed := res.Err == nil && res.Finalize != nil
		switch f.Expect {
		case "prepare-fails", "process-rejects":
			if committed {
				viol("block-committed-despite-engine-fault:"+f.Phase, "the block was accepted and committed", f)
				return
			}
			if res.Stage != "process" {
				viol("unexpected-failure-stage:"+f.Phase, fmt.Sprintf("stage %s err %v", res.Stage, res.Err), f)
			}
			if f.Expect == "prepare-fails" && res.Prepare != nil {
				// what BaseApp hands back after the handler failed must carry no block message and be rejected
				if len(res.Prepare.Txs) != len(res.RelayerTxs) {
					viol("prepare-did-not-fail:"+f.Phase, fmt.Sprintf("%d txs proposed", len(res.Prepare.Txs)), f)
				}
			}
			if after := x.N.DumpStores(x.N.Ctx()).Hash(); after != before {
				viol("state-persisted-from-aborted-block", "store dump changed", f)
			}
			// next fault-free round: same system transactions, same final state as the fault-free replica
			x.N.EL.WaitUp()
			x.N.EL.SetFaults(nil)
			rr := x.N.RunBlock(res.SimBlock)
			if rr.Err != nil || rr.Finalize == nil {
				viol("retry-after-fault-fails", fmt.Sprintf("stage %s err %v", rr.Stage, rr.Err), f)
				return
			}
			if got := sysTxsOfPrepare(rr.Calls); fmt.Sprintf("%x", got) != fmt.Sprintf("%x", refSys) {
				viol("retry-proposes-different-system-txs", fmt.Sprintf("%d vs %d system txs", len(got), len(refSys)), f)
			}
			if d := sameFinalize(rr.Finalize, resRef.Finalize); d != "" {
				viol("retry-differs-from-fault-free-run", d, f)
			}
			if x.N.DumpStores(x.N.Ctx()).Hash() != refDump {
				viol("retry-state-differs-from-fault-free-run", "store dump", f)
			}
		case "finalize-errors":
			if committed {
				viol("block-committed-despite-engine-fault:"+f.Phase, "FinalizeBlock returned a response and the block was committed", f)
				return
			}
			if res.Stage != "finalize" {
				viol("unexpected-failure-stage:"+f.Phase, fmt.Sprintf("stage %s err %v", res.Stage, res.Err), f)
				return
			}
			// CometBFT stops on a FinalizeBlock error: restart on the same DB, clear the fault, same block again
			x.N.EL.WaitUp()
			must(x.N.Restart())
			if after := x.N.DumpStores(x.N.Ctx()).Hash(); after != before {
				viol("state-persisted-from-aborted-block", "store dump after restart differs", f)
			}
			x.N.EL.SetFaults(nil)
			blk := *res.SimBlock
			blk.Txs = res.Txs
			rr := x.N.RunBlock(&blk)
			if rr.Err != nil || rr.Finalize == nil {
				viol("retry-after-fault-fails", fmt.Sprintf("stage %s err %v", rr.Stage, rr.Err), f)
				return
			}
			if d := sameFinalize(rr.Finalize, resRef.Finalize); d != "" {
				viol("retry-differs-from-fault-free-run", d, f)
			}
			if x.N.DumpStores(x.N.Ctx()).Hash() != refDump {
				viol("retry-state-differs-from-fault-free-run", "store dump", f)
			}
		case "tolerated":
			if !committed {
				viol("documented-tolerated-answer-aborts-block", fmt.Sprintf("stage %s err %v", res.Stage, res.Err), f)
				return
			}
			if d := sameFinalize(res.Finalize, resRef.Finalize); d != "" {
				viol("tolerated-answer-changes-result", d, f)
			}
			// what the engine is told does not depend on what it answered: same calls with the same
			// arguments (head, safe and finalised block included) as in the fault-free run
			told := func(cs []sim.Call) (out []string) {
				for _, c := range cs {
					out = append(out, c.Method+":"+c.Digest)
				}
				return
			}
			if a, b := told(res.Calls), told(resRef.Calls); fmt.Sprint(a) != fmt.Sprint(b) {
				viol("engine-told-something-else-after-a-tolerated-answer", fmt.Sprintf("calls %v, fault-free run %v", a, b), f)
			}
		}
	})
}

// c09Stale presents, to the application instance that verified and executed them, payloads
// that were well-formed proposals for an earlier height: the payload just committed, and a
// sibling that was accepted in another round of the same height but not decided. Whatever
// an instance remembers from ProcessProposal, at the next height such a payload is not a
// child of the recorded head: ProcessProposal must reject it, its message must fail when
// the block is finalised anyway, and the head must stay where it is.
func c09Stale(r *mc.Run, w *enga.World, path []enga.ABlock) {
	for _, variant := range []string{"committed-payload-again", "undecided-sibling", "undecided-sibling-verified-last", "fresh-child-claiming-the-verified-hash"} {
		x, err := w.Fork()
		must(err)
		viol := func(cls, msg string) {
			r.Violate(mc.Violation{Class: cls + ":" + variant, Msg: fmt.Sprintf("%s | stale proposal %s | history %v", msg, variant, aPath(path)), Detail: engaDetail{Path: path, Note: "stale proposal " + variant}}, nil)
		}
		blk := &sim.Block{TimeDelta: time.Second}
		x.N.EL.ResetCalls()
		txA, pA, err := x.N.BuildEthBlockTx(sim.EthBlockOpts{})
		must(err)
		txB, pB, err := x.N.BuildEthBlockTx(sim.EthBlockOpts{Rehash: true, MutatePayload: func(p *goatmodtypes.ExecutionPayload) { p.Timestamp++ }})
		must(err)
		accept := func(txs [][]byte) bool {
			pr, err := x.N.Process(blk, txs)
			r.Transitions.Add(1)
			r.Validated.Add(1)
			return err == nil && pr.Status == abci.ResponseProcessProposal_ACCEPT
		}
		okA, okB := true, true
		switch variant {
		case "committed-payload-again", "fresh-child-claiming-the-verified-hash":
			okA = accept([][]byte{txA})
		case "undecided-sibling":
			okB = accept([][]byte{txB})
			okA = accept([][]byte{txA})
		case "undecided-sibling-verified-last":
			okA = accept([][]byte{txA})
			okB = accept([][]byte{txB})
		}
		if variant == "undecided-sibling-verified-last" {
			// the engine is told a head at the end of a *finalised* block only: while accepted
			// proposals are waiting to be decided (give any background work time to show) the
			// only engine calls are the payload checks of ProcessProposal
			time.Sleep(150 * time.Millisecond)
			for _, c := range x.N.EL.Calls() {
				if strings.Contains(c.Method, "forkchoice") {
					viol("engine-told-a-head-before-any-block-was-finalised", fmt.Sprintf("%s head %x after ProcessProposal only", c.Method, c.Head))
				}
			}
		}
		if !okA || !okB {
			// a sibling that differs in its timestamp only is as well-formed as the original
			viol("well-formed-proposal-rejected", fmt.Sprintf("original accepted=%v sibling accepted=%v %s", okA, okB, x.N.LoggedErrors()))
			x.Close()
			continue
		}
		fr, err := x.N.Finalize(blk, [][]byte{txA})
		if err != nil || fr.TxResults[0].Code != 0 {
			viol("decided-proposal-not-executed", fmt.Sprintf("err=%v", err))
			x.Close()
			continue
		}
		must(x.N.Commit(blk, [][]byte{txA}, fr))
		pre := x.Head()
		if !bytes.Equal(pre.Block.BlockHash, pA.BlockHash) {
			viol("head-is-not-the-decided-payload", fmt.Sprintf("head %x, decided %x", pre.Block.BlockHash, pA.BlockHash))
		}
		stale := pA
		if variant != "committed-payload-again" {
			stale = pB
		}
		blk2 := &sim.Block{TimeDelta: time.Second}
		txS, _, err := x.N.BuildEthBlockTx(sim.EthBlockOpts{Payload: stale})
		must(err)
		if variant == "fresh-child-claiming-the-verified-hash" {
			// a well-formed child of the new head in every field the application checks itself,
			// but claiming the block hash the engine answered VALID for a moment ago: only the
			// engine ties the hash to the content, so it must be asked again
			claimed := append([]byte{}, pA.BlockHash...)
			txS, _, err = x.N.BuildEthBlockTx(sim.EthBlockOpts{MutatePayload: func(p *goatmodtypes.ExecutionPayload) { p.BlockHash = claimed }})
			must(err)
		}
		pr, perr := x.N.Process(blk2, [][]byte{txS})
		r.Transitions.Add(1)
		r.Validated.Add(1)
		if perr == nil && pr.Status == abci.ResponseProcessProposal_ACCEPT {
			viol("stale-proposal-accepted", "ProcessProposal answered ACCEPT for a payload that does not extend the head")
		}
		fr2, ferr := x.N.Finalize(blk2, [][]byte{txS})
		if ferr == nil {
			if fr2.TxResults[0].Code == 0 {
				viol("stale-execution-block-message-succeeds", "the message of a payload that is not a child of the recorded head returned code 0")
			}
			must(x.N.Commit(blk2, [][]byte{txS}, fr2))
			post := x.Head()
			if !bytes.Equal(post.Block.BlockHash, pre.Block.BlockHash) {
				viol("head-moved-by-stale-proposal", fmt.Sprintf("head %x -> %x", pre.Block.BlockHash, post.Block.BlockHash))
			}
			if !bytes.Equal(post.Beacon, pre.Beacon) {
				viol("beacon-root-moved-by-stale-proposal", fmt.Sprintf("beacon root %x -> %x although no payload was applied", pre.Beacon, post.Beacon))
			}
			r.Outcome("stale-proposal-without-effect")
		} else {
			r.Outcome("stale-proposal-aborts-block")
		}
		x.Close()
	}
}

// c09Blob presents payloads that are perfect children of the head except for their blob-gas
// fields (the block hash is recomputed, the engine answers VALID). Whatever ProcessProposal
// says, a payload with blob gas must not become the head: its message fails when finalised.
func c09Blob(r *mc.Run, w *enga.World, path []enga.ABlock) {
	type bv struct {
		name         string
		used, excess uint64
	}
	for _, v := range []bv{{"used-1", 1, 0}, {"used-131072", 131072, 0}, {"used-131072-excess-131072", 131072, 131072},
		{"used-max", ^uint64(0), 0}, {"used+excess-wrap-to-0", ^uint64(0) - 131071, 131072}, {"used-2^63-excess-2^63", 1 << 63, 1 << 63}, {"used-max-excess-1", ^uint64(0), 1},
		// no blob gas used, only an excess carried over: a perfectly legal child of the head
		{"excess-only-131072", 0, 131072}, {"excess-only-2^63", 0, 1 << 63}} {
		x, err := w.Fork()
		must(err)
		viol := func(cls, msg string) {
			r.Violate(mc.Violation{Class: cls + ":" + v.name, Msg: fmt.Sprintf("%s | blob gas used=%d excess=%d | history %v", msg, v.used, v.excess, aPath(path)), Detail: engaDetail{Path: path, Note: "blob payload " + v.name}}, nil)
		}
		pre := x.Head()
		blk := &sim.Block{TimeDelta: time.Second}
		tx, _, err := x.N.BuildEthBlockTx(sim.EthBlockOpts{Rehash: true, MutatePayload: func(p *goatmodtypes.ExecutionPayload) { p.BlobGasUsed, p.ExcessBlobGas = v.used, v.excess }})
		must(err)
		pr, perr := x.N.Process(blk, [][]byte{tx})
		r.Transitions.Add(1)
		r.Validated.Add(1)
		if perr == nil && pr.Status == abci.ResponseProcessProposal_ACCEPT {
			r.Outcome("blob-payload-passes-proposal-check")
		} else {
			r.Outcome("blob-payload-rejected-as-proposal")
		}
		if v.used == 0 {
			// legal: it must be treated like any honest child - accepted, applied, and the engine is
			// shown the payload it will be told to make its head (what it is shown hashes to that head)
			okP := perr == nil && pr.Status == abci.ResponseProcessProposal_ACCEPT
			fr, ferr := x.N.Finalize(blk, [][]byte{tx})
			switch {
			case !okP:
				viol("legal-child-with-excess-blob-gas-rejected", "ProcessProposal: "+x.N.LoggedErrors())
			case ferr != nil:
				viol("legal-child-with-excess-blob-gas-aborts-block", ferr.Error())
			case fr.TxResults[0].Code != 0:
				viol("legal-child-with-excess-blob-gas-not-applied", fr.TxResults[0].Log)
			default:
				must(x.N.Commit(blk, [][]byte{tx}, fr))
				if post := x.Head(); post.Block.ExcessBlobGas != v.excess {
					viol("recorded-head-differs-from-the-payload", fmt.Sprintf("excess blob gas %d recorded, %d proposed", post.Block.ExcessBlobGas, v.excess))
				}
				r.Outcome("legal-excess-blob-gas-child-applied")
			}
			x.Close()
			continue
		}
		fr, ferr := x.N.Finalize(blk, [][]byte{tx})
		if ferr == nil {
			if fr.TxResults[0].Code == 0 {
				viol("execution-block-message-with-blob-gas-succeeds", "code 0")
			}
			must(x.N.Commit(blk, [][]byte{tx}, fr))
			post := x.Head()
			if !bytes.Equal(post.Block.BlockHash, pre.Block.BlockHash) {
				viol("head-moved-to-payload-with-blob-gas", fmt.Sprintf("head %x -> %x", pre.Block.BlockHash, post.Block.BlockHash))
			}
		} else {
			r.Outcome("blob-payload-aborts-block")
		}
		x.Close()
	}
}

func runC09(r *mc.Run) {
	depth, faultDepth := 3, 1
	if r.Thorough() {
		depth, faultDepth = 4, 2
		r.SetBudget(12 * 60 * 1e9)
	} else {
		r.SetBudget(300 * 1e9)
	}
	r.Bounds["depth_blocks"] = depth
	r.Bounds["fault_enumeration_history_depth"] = faultDepth
	r.Rule = "tree search over block histories of the real application (real PrepareProposal/ProcessProposal/FinalizeBlock/Commit, fake execution layer over IPC) with the head monitor on every finalised block; at every node up to the fault depth, for every menu block, every placement of one engine fault (error, INVALID, SYNCING, ACCEPTED, missing payload id, stall past the 1.2 s deadline, outage: the connection is cut without an answer and nothing listens for 0.9 s) on each of the 5 engine calls; at every node one level deeper, stale proposals put to the same application instance that verified them (the committed payload again; a sibling accepted in another round but not decided, verified before / after the decided one): rejected, message fails when finalised anyway, head and beacon root unmoved; and 9 payloads that differ from a perfect child only in their blob-gas fields (incl. pairs whose 64-bit sum wraps to zero): with blob gas used the message fails and the head stays, with an excess only the block is applied like any honest child (the engine, which recomputes the hash from what it is shown, must agree); aborted blocks are retried (after a restart when FinalizeBlock failed) and compared with a fault-free replica"
	r.Assumptions = []string{"single validator = proposer of every block", "ELSim defines the well-behaved engine", "pairs of faults are explored from the initial state in the thorough tier only"}
	var explore func(r *mc.Run, only []enga.ABlock)
	explore = func(r *mc.Run, only []enga.ABlock) {
		root, err := enga.NewWorld(engaCfg())
		if err != nil {
			panic(err)
		}
		defer root.Close()
		menu := engaMenu(r.Thorough())
		faultBlocks := []enga.ABlock{{}, {Events: []enga.Event{{Kind: "tx:hashes", N: 1}}}, {Events: []enga.Event{{Kind: "req:withdraw", N: 2, Var: "bad-address"}, {Kind: "req:claim", N: 1}}}}
		t := &enga.Tree{Run: r, Depth: depth,
			Menu: func(w *enga.World, path []enga.ABlock) []enga.ABlock { return menu },
			Pre: func(w *enga.World) any {
				h := w.Head()
				return h
			},
			Visit: func(path []enga.ABlock, pre any, child *enga.World, res *enga.Result) bool {
				if res.Err != nil {
					r.Outcome("block-not-executed:" + res.Stage)
					r.Violate(mc.Violation{Class: "honest-block-fails:" + res.Stage, Msg: fmt.Sprintf("%v | history %v", res.Err, aPath(path)), Detail: engaDetail{Path: path}}, nil)
					return false
				}
				if res.EthOK {
					r.Outcome("head-advanced")
				} else {
					r.Outcome("execution-message-failed")
				}
				for _, b := range enga.CheckHead(pre.(enga.HeadInfo), child, res) {
					cls := b
					if i := bytes.IndexByte([]byte(b), ':'); i > 0 {
						cls = b[:i]
					}
					r.Violate(mc.Violation{Class: "head-monitor:" + cls, Msg: b + fmt.Sprintf(" | history %v", aPath(path)), Detail: engaDetail{Path: path}}, nil)
				}
				if len(path) <= faultDepth {
					for _, fb := range faultBlocks {
						c09FaultEnum(r, child, path, fb)
					}
				}
				if len(path) <= faultDepth+1 {
					c09Stale(r, child, path)
					c09Blob(r, child, path)
				}
				return true
			},
		}
		// faults from the initial state too
		if only == nil {
			c09Stale(r, root, nil)
			c09Blob(r, root, nil)
		}
		for _, fb := range faultBlocks {
			if only != nil {
				break
			}
			c09FaultEnum(r, root, nil, fb)
			if r.Thorough() {
				c09FaultPairs(r, root, nil, fb)
			}
		}
		t.Only = only
		t.Explore(root)
		r.Sample(map[string]any{"history": aPath([]enga.ABlock{menu[1], menu[3], menu[5]}), "faults_per_block": len(c09Faults())})
	}
	treeRecheck(r, explore)
	explore(r, nil)
}

func replayC09(detail json.RawMessage) (bool, string) {
	return false, "re-run bin/check C09 quick; the artefact lists the history and the fault placement"
}

func init() { register(&Check{ID: "C09", Run: runC09, Replay: replayC09}) }
