package checks

import (
	"bytes"
	"fmt"
	"os"
	"os/exec"
	"path/filepath"
	"regexp"
	"strings"
	"sync"

	"verifharness/enga"
	"verifharness/mc"
)

// Free-running race pass (C08: "building and checking proposals is free of data races").
// The cooperative scheduler's hand-offs are happens-before edges that blind the race
// detector, so the same harness bodies run free on a -race build of the harness.

// C08RaceWorker is executed by bin/verifmc-race: honest prepare/process/finalize rounds
// covering payloads with and without transactions and empty / non-empty mempools; every block is
// also executed by two more instances concurrently.
func C08RaceWorker(rounds int) {
	w, err := enga.NewWorld(c08Cfg())
	must(err)
	defer w.Close()
	menu := []enga.ABlock{
		{},
		{Events: []enga.Event{{Kind: "tx:hashes", N: 2}}},
		{Events: []enga.Event{{Kind: "tx:deposits", N: 3}, {Kind: "req:withdraw", N: 2}}},
		{Events: []enga.Event{{Kind: "tx:deposits", N: 1}, {Kind: "tx:deposits", N: 1}, {Kind: "req:claim", N: 1}}},
		{},
		{Events: []enga.Event{{Kind: "tx:process", N: 1}}},
	}
	done := 0
	for i := 0; i < rounds; i++ {
		b := menu[i%len(menu)]
		// a second replica checks the proposal concurrently with nothing else: Process on a fork
		rep, err := w.Fork()
		must(err)
		// two further instances in this process execute the same block at the same time (several
		// nodes / a node and its RPC simulations share one process image): anything they share is
		// process-global state of the code under check
		twinA, err := w.Fork()
		must(err)
		twinB, err := w.Fork()
		must(err)
		var twins sync.WaitGroup
		for _, tw := range []*enga.World{twinA, twinB} {
			tw := tw
			twins.Add(1)
			go func() {
				defer twins.Done()
				tw.Run(b)
			}()
		}
		twins.Wait()
		twinA.Close()
		twinB.Close()
		res := w.Run(b)
		if res.Err == nil && res.Txs != nil {
			_, _ = rep.N.Process(res.SimBlock, res.Txs)
			done++
		}
		rep.Close()
	}
	fmt.Printf("RACEPASS rounds=%d\n", done)
}

var raceRe = regexp.MustCompile(`(?s)WARNING: DATA RACE.*?==================`)

// c08RacePass runs the worker and turns race reports with a frame in /repo into violations.
func c08RacePass(r *mc.Run) {
	self, err := os.Executable()
	must(err)
	bin := filepath.Join(filepath.Dir(self), "verifmc-race")
	if _, err := os.Stat(bin); err != nil {
		r.Cap("race-detector binary bin/verifmc-race missing: race pass not run")
		return
	}
	rounds := 36
	if r.Thorough() {
		rounds = 240
	}
	cmd := exec.Command(bin, "c08race", fmt.Sprint(rounds))
	cmd.Env = append(os.Environ(), "GORACE=halt_on_error=0 exitcode=0")
	var out, stderr bytes.Buffer
	cmd.Stdout, cmd.Stderr = &out, &stderr
	if err := cmd.Run(); err != nil {
		r.Cap("race pass did not complete: " + err.Error())
		return
	}
	if !strings.Contains(out.String(), "RACEPASS rounds=") {
		r.Cap("race pass produced no summary")
		return
	}
	r.Extra["race_pass"] = strings.TrimSpace(out.String())
	r.Transitions.Add(int64(rounds))
	reports := raceRe.FindAllString(stderr.String(), -1)
	r.Extra["race_reports_total"] = len(reports)
	seen := map[string]bool{}
	for _, rep := range reports {
		// a frame of goat itself: by the import path of the function (robust against where the
		// working tree lives), or by the /repo/ source path
		const goatPkg = "github.com/goatnetwork/goat/"
		if !strings.Contains(rep, goatPkg) && !strings.Contains(rep, "/repo/") {
			continue // races entirely inside dependencies are not goat's
		}
		// class = the first two goat functions named in the report
		var fns []string
		lines := strings.Split(rep, "\n")
		for i, l := range lines {
			if i > 0 && strings.Contains(lines[i-1], goatPkg) && strings.Contains(l, ".go:") {
				fn := strings.TrimSpace(lines[i-1])
				if j := strings.Index(fn, "("); j > 0 {
					fn = fn[:j]
				}
				if len(fns) < 2 && (len(fns) == 0 || fns[len(fns)-1] != fn) {
					fns = append(fns, fn)
				}
			}
		}
		cls := "data-race:" + strings.Join(fns, "<->")
		if seen[cls] {
			continue
		}
		seen[cls] = true
		if len(rep) > 2500 {
			rep = rep[:2500]
		}
		r.Violate(mc.Violation{Class: cls, Msg: "race detector report with frames in goat:\n" + rep, Detail: map[string]any{"race_report": rep}}, nil)
	}
	r.Outcome("race-pass-completed")
}
