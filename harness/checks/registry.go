// Package checks contains one exhaustive bounded check per property.
package checks

import (
	"encoding/json"
	"math/big"
	"sort"

	"verifharness/mc"
)

// Check is one registered property check.
type Check struct {
	ID     string
	Run    func(r *mc.Run)
	Replay func(detail json.RawMessage) (reproduced bool, msg string)
}

var registry = map[string]*Check{}

func register(c *Check) { registry[c.ID] = c }

func Get(id string) *Check { return registry[id] }

func IDs() []string {
	var ids []string
	for k := range registry {
		ids = append(ids, k)
	}
	sort.Strings(ids)
	return ids
}

func newBig(n int64) *big.Int { return big.NewInt(n) }
