package checks

import (
	"bytes"
	"crypto/sha256"
	"encoding/hex"
	"encoding/json"
	"fmt"
	"runtime"
	"strings"
	"sync"
	"sync/atomic"

	"github.com/btcsuite/btcd/btcec/v2"
	"github.com/btcsuite/btcd/btcec/v2/schnorr"
	"github.com/btcsuite/btcd/btcutil"
	"github.com/btcsuite/btcd/btcutil/base58"
	"github.com/btcsuite/btcd/btcutil/bech32"
	"github.com/btcsuite/btcd/chaincfg"
	"github.com/btcsuite/btcd/txscript"
	sdk "github.com/cosmos/cosmos-sdk/types"
	"github.com/ethereum/go-ethereum/core/types/goattypes"
	bitcoinkeeper "github.com/goatnetwork/goat/x/bitcoin/keeper"
	bitcointypes "github.com/goatnetwork/goat/x/bitcoin/types"
	relayertypes "github.com/goatnetwork/goat/x/relayer/types"
	"verifharness/mc"
	"verifharness/sim"
)

// C17 – deposit addresses handed out are exactly what deposit checking accepts;
// withdrawal addresses decode to exactly the script they encode.

type c17Case struct {
	Part    string `json:"part"` // deposit | withdrawal
	Key     string `json:"key,omitempty"`
	Evm     string `json:"evm,omitempty"`
	Network string `json:"network,omitempty"`
	Version uint32 `json:"version,omitempty"`
	Magic   string `json:"magic,omitempty"`
	Address string `json:"address,omitempty"`
	Other   string `json:"other,omitempty"`
}

type netID struct {
	name   string
	p2pkh  byte
	p2sh   byte
	hrp    string
	params *chaincfg.Params
}

// network identifiers written down from the Bitcoin address formats (not from chaincfg)
var c17Nets = []netID{
	{"mainnet", 0x00, 0x05, "bc", &chaincfg.MainNetParams},
	{"testnet3", 0x6f, 0xc4, "tb", &chaincfg.TestNet3Params},
	{"signet", 0x6f, 0xc4, "tb", &chaincfg.SigNetParams},
	{"regtest", 0x6f, 0xc4, "bcrt", &chaincfg.RegressionNetParams},
}

func c17Keys(nSecp, nSchn int) []sim.BtcKey {
	var ks []sim.BtcKey
	par := map[byte]int{}
	for i := 0; len(ks) < nSecp; i++ {
		k := sim.NewBtcKey(fmt.Sprintf("c17-secp-%d", i), false)
		p := k.Priv.PubKey().SerializeCompressed()[0]
		if par[p] >= nSecp/2 {
			continue
		}
		par[p]++
		ks = append(ks, k)
	}
	for i := 0; i < nSchn; i++ {
		ks = append(ks, sim.NewBtcKey(fmt.Sprintf("c17-schnorr-%d", i), true))
	}
	return ks
}

func c17Evms(n int) [][]byte {
	out := [][]byte{make([]byte, 20), bytes.Repeat([]byte{0xff}, 20)}
	for i := 0; i < n-2; i++ {
		h := sha256.Sum256([]byte{byte(i), 'e'})
		out = append(out, h[:20])
	}
	return out
}

func pubHex(p *relayertypes.PublicKey) string {
	return hex.EncodeToString(relayertypes.EncodePublicKey(p))
}

// encodeSegwit builds a bech32/bech32m address by hand.
func encodeSegwit(hrp string, version byte, prog []byte) string {
	conv, err := bech32.ConvertBits(prog, 8, 5, true)
	must(err)
	data := append([]byte{version}, conv...)
	var s string
	if version == 0 {
		s, err = bech32.Encode(hrp, data)
	} else {
		s, err = bech32.EncodeM(hrp, data)
	}
	must(err)
	return s
}

type wdAddr struct {
	kind, net string
	addr      string
	script    []byte // the script the address encodes (nil for pay-to-pubkey strings)
	id        string // network identifier of the encoding (prefix byte or hrp)
}

func c17WithdrawalAddrs() []wdAddr {
	var out []wdAddr
	h20 := btcutil.Hash160([]byte("c17-payload"))
	h32 := sha256.Sum256([]byte("c17-payload-32"))
	for _, n := range c17Nets {
		out = append(out,
			wdAddr{"p2pkh", n.name, base58.CheckEncode(h20, n.p2pkh), append(append([]byte{txscript.OP_DUP, txscript.OP_HASH160, 20}, h20...), txscript.OP_EQUALVERIFY, txscript.OP_CHECKSIG), fmt.Sprintf("b58:%02x", n.p2pkh)},
			wdAddr{"p2sh", n.name, base58.CheckEncode(h20, n.p2sh), append(append([]byte{txscript.OP_HASH160, 20}, h20...), txscript.OP_EQUAL), fmt.Sprintf("b58:%02x", n.p2sh)},
			wdAddr{"p2wpkh", n.name, encodeSegwit(n.hrp, 0, h20), append([]byte{0, 20}, h20...), "hrp:" + n.hrp},
			wdAddr{"p2wsh", n.name, encodeSegwit(n.hrp, 0, h32[:]), append([]byte{0, 32}, h32[:]...), "hrp:" + n.hrp},
			wdAddr{"p2tr", n.name, encodeSegwit(n.hrp, 1, h32[:]), append([]byte{txscript.OP_1, 32}, h32[:]...), "hrp:" + n.hrp},
		)
	}
	// legacy pay-to-pubkey strings: serialized public keys in hex
	pk := sim.NewBtcKey("c17-p2pk", false).Priv.PubKey()
	hybrid := pk.SerializeUncompressed()
	hybrid[0] = 6 | (hybrid[64] & 1)
	for _, ser := range [][]byte{pk.SerializeCompressed(), pk.SerializeUncompressed(), hybrid} {
		out = append(out, wdAddr{"p2pk", "any", hex.EncodeToString(ser), nil, "p2pk"})
	}
	return out
}

func netAccepts(n netID, a wdAddr) bool {
	if a.script == nil {
		return false
	}
	switch {
	case strings.HasPrefix(a.id, "hrp:"):
		return a.id == "hrp:"+n.hrp
	case a.kind == "p2pkh":
		return a.id == fmt.Sprintf("b58:%02x", n.p2pkh)
	case a.kind == "p2sh":
		return a.id == fmt.Sprintf("b58:%02x", n.p2sh)
	}
	return false
}

var c17ScriptMutations atomic.Int64

// c17PayHandedOut pays the handed-out address (and data script) in a two-transaction block
// whose hash is voted, and submits the deposit; it returns a description when it is refused.
func c17PayHandedOut(w *depWorld, ctx sdk.Context, k sim.BtcKey, evm []byte, ver uint32, resp *bitcointypes.QueryDepositAddressResponse) string {
	kp := w.n.App.BitcoinKeeper
	addr, err := btcutil.DecodeAddress(resp.Address, &chaincfg.RegressionNetParams)
	if err != nil {
		return "" // reported by the caller's own decoding check
	}
	script, err := txscript.PayToAddrScript(addr)
	must(err)
	outs := []sim.BtcOut{{Value: 123456, Script: script}}
	if ver == 1 {
		outs = append(outs, sim.BtcOut{Value: 0, Script: resp.OpReturnScript})
	}
	tx := sim.BtcTx(4711, outs...)
	const height = c03Mature
	blk := sim.NewBtcBlock(height, sim.DSHA([]byte("c17-prev")), [][]byte{sim.CoinbaseTx(height, sim.BtcOut{Value: 50, Script: sim.RefSystemScript(k)}), tx})
	tctx, _ := ctx.CacheContext()
	must(w.n.App.RelayerKeeper.AddNewKey(tctx, relayertypes.EncodePublicKey(k.Public())))
	must(kp.BlockHashes.Set(tctx, height, blk.Hash()))
	msg := &bitcointypes.MsgNewDeposits{Proposer: w.n.Cfg.Proposer.AddrStr(),
		Deposits:     []*bitcointypes.Deposit{{Version: ver, BlockNumber: height, TxIndex: 1, NoWitnessTx: tx, OutputIndex: 0, IntermediateProof: blk.Proof(1), EvmAddress: evm, RelayerPubkey: k.Public()}},
		BlockHeaders: []*bitcointypes.BlockHeader{{Height: height, Raw: blk.Header}}}
	if _, err, p := w.n.Deliver(tctx, msg); err != nil || p != nil {
		return fmt.Sprintf("MsgNewDeposits paying %s (v%d, evm %x) is refused: %v", resp.Address, ver, evm, err)
	}
	return ""
}

var c17Pads = []string{" ", "\t", "\n", "\r", "\x00"}

func runC17(r *mc.Run) {
	r.Rule = "deposit side: 11 relayer keys (6 ECDSA of both parities, 5 x-only) x 6 EVM addresses x 4 networks x versions 0/1 x 3 magic prefixes: address and data script from the real Query/DepositAddress handler and from the builders -> script via btcd -> the real verifier must accept (and, on regtest, a transaction paying it must be credited through the real MsgNewDeposits path) for the generating (key, address) and reject for every other pair of the alphabet (full cross product), and must reject every single-byte substitution (255 values x every position), truncation and extension of the handed-out scripts for the generating pair; system address: for every key the p2wpkh / p2tr script of the key is accepted by VerifySystemAddressScript and every single-byte substitution, truncation, extension, other key's script is refused; withdrawal side: hand-encoded p2pkh/p2sh/p2wpkh/p2wsh/p2tr addresses of 4 networks, pay-to-pubkey strings, every single-character substitution from a 4-symbol menu, blank / tab / newline / CR / NUL padding at either end, case change, extension, truncation, decoded for every network by the real DecodeBtcAddress and end-to-end through ProcessBridgeRequest (singly, and three times in one request list)"
	r.Assumptions = []string{"btcd address/script encoding trusted as reference decoder for mutated strings", "hash functions trusted"}
	keys, evms := c17Keys(6, 5), c17Evms(6)
	if r.Thorough() {
		keys, evms = c17Keys(16, 12), c17Evms(12)
	}
	r.Bounds["keys"], r.Bounds["evm_addresses"] = len(keys), len(evms)
	magics := [][]byte{[]byte("GTT0"), []byte("GTV1"), {0, 0, 0, 0}}
	w, err := newDepWorld()
	if err != nil {
		panic(err)
	}
	defer w.close()
	qs := bitcoinkeeper.NewQueryServerImpl(w.n.App.BitcoinKeeper)
	var mu sync.Mutex // the query handler runs on a shared branch factory
	type job struct {
		k   sim.BtcKey
		evm []byte
		net netID
		ver uint32
		mg  []byte
	}
	var jobs []job
	for _, k := range keys {
		for _, e := range evms {
			for _, n := range c17Nets {
				for _, ver := range []uint32{0, 1} {
					ms := magics
					if ver == 0 {
						ms = magics[:1]
					}
					for _, mg := range ms {
						jobs = append(jobs, job{k, e, n, ver, mg})
					}
				}
			}
		}
	}
	r.States.Store(int64(len(jobs)))
	mc.Parallel(len(jobs), runtime.NumCPU(), func(i int) {
		j := jobs[i]
		c := c17Case{Part: "deposit", Key: pubHex(j.k.Public()), Evm: hex.EncodeToString(j.evm), Network: j.net.name, Version: j.ver, Magic: hex.EncodeToString(j.mg)}
		viol := func(class, msg string) {
			r.Violate(mc.Violation{Class: class, Msg: msg + fmt.Sprintf(" | %+v", c), Detail: c}, nil)
		}
		// through the real query handler
		mu.Lock()
		ctx, _ := w.root.CacheContext()
		kp := w.n.App.BitcoinKeeper
		p, _ := kp.Params.Get(ctx)
		p.NetworkName, p.DepositMagicPrefix = j.net.params.Name, j.mg
		must(kp.Params.Set(ctx, p))
		must(kp.Pubkey.Set(ctx, *j.k.Public()))
		resp, qerr := qs.DepositAddress(ctx, &bitcointypes.QueryDepositAddress{Version: j.ver, EvmAddress: "0x" + hex.EncodeToString(j.evm)})
		// "accepted by deposit verification": a Bitcoin transaction paying what was handed out goes
		// through the real MsgNewDeposits path (message validation, SPV proof, script verification)
		e2e := ""
		if qerr == nil && j.net.name == "regtest" && bytes.Equal(j.mg, magics[0]) {
			e2e = c17PayHandedOut(w, ctx, j.k, j.evm, j.ver, resp)
		}
		mu.Unlock()
		if e2e != "" {
			viol("deposit-to-handed-out-address-refused", e2e)
		}
		r.Transitions.Add(1)
		r.Validated.Add(1)
		if j.ver == 1 && j.k.Schnorr {
			if qerr == nil {
				viol("v1-address-for-schnorr-key", "Query/DepositAddress hands out a version-1 address for an x-only key")
			}
			if err := bitcointypes.VerifyDespositScriptV1(j.k.Public(), j.mg, j.evm, make([]byte, 22), make([]byte, 26)); err == nil {
				viol("v1-verifier-accepts-schnorr-key", "verifier accepts")
			}
			r.Outcome("v1-schnorr-refused")
			return
		}
		if qerr != nil {
			viol("deposit-address-query-fails", qerr.Error())
			return
		}
		addr, err := btcutil.DecodeAddress(resp.Address, j.net.params)
		if err != nil || !addr.IsForNet(j.net.params) {
			viol("handed-out-address-undecodable", fmt.Sprintf("%s: %v", resp.Address, err))
			return
		}
		script, err := txscript.PayToAddrScript(addr)
		must(err)
		// binds to the reference construction used by C03's ground truth
		var refScript, refData []byte
		if j.ver == 0 {
			refScript = sim.RefDepositScriptV0(j.k, j.evm)
		} else {
			refScript, refData = sim.RefDepositScriptsV1(j.k, j.mg, j.evm)
			if !bytes.Equal(resp.OpReturnScript, refData) {
				viol("data-script-differs-from-protocol", fmt.Sprintf("%x vs %x", resp.OpReturnScript, refData))
			}
		}
		if !bytes.Equal(script, refScript) {
			viol("address-differs-from-protocol", fmt.Sprintf("%x vs %x", script, refScript))
		}
		r.Outcome(fmt.Sprintf("address-v%d-schnorr=%v", j.ver, j.k.Schnorr))
		// full cross product against the verifier
		for _, k2 := range keys {
			for _, e2 := range evms {
				same := pubHex(k2.Public()) == pubHex(j.k.Public()) && bytes.Equal(e2, j.evm)
				var verr error
				if j.ver == 0 {
					verr = bitcointypes.VerifyDespositScriptV0(k2.Public(), e2, script)
				} else {
					verr = bitcointypes.VerifyDespositScriptV1(k2.Public(), j.mg, e2, script, resp.OpReturnScript)
				}
				r.Transitions.Add(1)
				if same && verr != nil {
					c.Other = "self"
					viol("verifier-rejects-handed-out-address", verr.Error())
				}
				if !same && verr == nil {
					c.Other = pubHex(k2.Public()) + "/" + hex.EncodeToString(e2)
					viol("verifier-accepts-for-other-key-or-address", "script of one (key, address) accepted for another")
				}
			}
		}
		// "and for no other": every single-byte substitution (all 255 other values at every
		// position), truncation and extension of the handed-out script(s) must be refused for the
		// generating (key, address) (scripts do not depend on the network: first network only)
		if j.net.name == c17Nets[0].name && (bytes.Equal(j.evm, evms[0]) || bytes.Equal(j.evm, evms[1])) {
			verify := func(sc, data []byte) error {
				if j.ver == 0 {
					return bitcointypes.VerifyDespositScriptV0(j.k.Public(), j.evm, sc)
				}
				return bitcointypes.VerifyDespositScriptV1(j.k.Public(), j.mg, j.evm, sc, data)
			}
			try := func(what string, sc, data []byte) {
				r.Transitions.Add(1)
				c17ScriptMutations.Add(1)
				if verify(sc, data) == nil {
					c.Other = fmt.Sprintf("%s: script %x data %x", what, sc, data)
					viol("verifier-accepts-other-script:"+strings.SplitN(what, "[", 2)[0], "a script other than the handed-out one is accepted for the same key and address")
				}
			}
			mutate := func(name string, orig []byte, apply func(m []byte) (sc, data []byte)) {
				for pos := range orig {
					for v := 0; v < 256; v++ {
						if byte(v) == orig[pos] {
							continue
						}
						m := append([]byte{}, orig...)
						m[pos] = byte(v)
						sc, data := apply(m)
						try(fmt.Sprintf("%s[%d]=%02x", name, pos, v), sc, data)
					}
				}
				for _, m := range [][]byte{orig[:len(orig)-1], orig[1:], append(append([]byte{}, orig...), 0), append([]byte{0}, orig...)} {
					sc, data := apply(append([]byte{}, m...))
					try(name+":length", sc, data)
				}
			}
			mutate("script", script, func(m []byte) ([]byte, []byte) { return m, resp.OpReturnScript })
			if j.ver == 1 {
				mutate("data-script", resp.OpReturnScript, func(m []byte) ([]byte, []byte) { return script, m })
			}
		}
		if j.ver == 1 {
			for _, mg2 := range magics {
				if bytes.Equal(mg2, j.mg) {
					continue
				}
				if bitcointypes.VerifyDespositScriptV1(j.k.Public(), mg2, j.evm, script, resp.OpReturnScript) == nil {
					viol("verifier-ignores-magic-prefix", "accepted under another magic prefix")
				}
			}
		}
	})

	// ---- the relayer's own ("system") address: change outputs of withdrawal transactions and
	// consolidation outputs must pay exactly the script of the current key - p2wpkh for an ECDSA
	// key, p2tr (key path only) for an x-only key - and nothing else
	var sysMut atomic.Int64
	mc.Parallel(len(keys), runtime.NumCPU(), func(i int) {
		k := keys[i]
		genuine := sim.RefSystemScript(k)
		c := c17Case{Part: "system-address", Key: pubHex(k.Public())}
		r.Transitions.Add(1)
		if !bitcointypes.VerifySystemAddressScript(k.Public(), genuine) {
			r.Violate(mc.Violation{Class: "system-script-of-the-key-rejected", Msg: fmt.Sprintf("%x", genuine), Detail: c}, nil)
		}
		try := func(what string, sc []byte) {
			sysMut.Add(1)
			r.Transitions.Add(1)
			if bitcointypes.VerifySystemAddressScript(k.Public(), sc) {
				c.Other = fmt.Sprintf("%s: %x", what, sc)
				r.Violate(mc.Violation{Class: "system-address-verifier-accepts-other-script:" + strings.SplitN(what, "[", 2)[0], Msg: "a script other than the key's own is accepted as the relayer's address", Detail: c}, nil)
			}
		}
		for pos := range genuine {
			for v := 0; v < 256; v++ {
				if byte(v) != genuine[pos] {
					m := append([]byte{}, genuine...)
					m[pos] = byte(v)
					try(fmt.Sprintf("script[%d]=%02x", pos, v), m)
				}
			}
		}
		for _, m := range [][]byte{genuine[:len(genuine)-1], genuine[1:], append(append([]byte{}, genuine...), 0), append([]byte{0}, genuine...), {}} {
			try("script:length", append([]byte{}, m...))
		}
		// the other key type's construction over the same key material, and other keys' scripts
		try("script:deposit-v0-of-the-key", sim.RefDepositScriptV0(k, evms[0]))
		for _, k2 := range keys {
			if pubHex(k2.Public()) != pubHex(k.Public()) {
				try("script:of-another-key", sim.RefSystemScript(k2))
			}
		}
	})
	r.Extra["system_address_script_mutations"] = sysMut.Load()

	// a key that is not on the curve must be refused by both sides
	{
		bad := make([]byte, 32)
		for x := byte(1); ; x++ {
			bad[31] = x
			if _, err := schnorr.ParsePubKey(bad); err != nil {
				break
			}
		}
		pk := &relayertypes.PublicKey{Key: &relayertypes.PublicKey_Schnorr{Schnorr: bad}}
		_, err := bitcointypes.DepositAddressV0(pk, evms[2], &chaincfg.RegressionNetParams)
		verr := bitcointypes.VerifyDespositScriptV0(pk, evms[2], append([]byte{txscript.OP_1, 32}, bad...))
		r.Transitions.Add(2)
		if err == nil || verr == nil {
			r.Violate(mc.Violation{Class: "off-curve-key-accepted", Msg: fmt.Sprintf("builder err=%v verifier err=%v", err, verr), Detail: c17Case{Part: "deposit", Key: hex.EncodeToString(bad)}}, nil)
		}
		r.Outcome("off-curve-key-refused")
	}

	r.Extra["deposit_script_mutations_put_to_the_verifier"] = c17ScriptMutations.Load()
	// ---- withdrawal addresses
	addrs := c17WithdrawalAddrs()
	symbols := []byte{'q', '2', 'z', 'Q'}
	if r.Thorough() {
		symbols = []byte{'q', '2', 'z', 'Q', 'p', '7', 'A', 'l', '0', 'x'}
	}
	check := func(a wdAddr, str string, mutated bool) {
		for _, n := range c17Nets {
			script, err := bitcointypes.DecodeBtcAddress(str, n.params)
			r.Transitions.Add(1)
			r.Validated.Add(1)
			c := c17Case{Part: "withdrawal", Address: str, Network: n.name, Other: a.kind + "@" + a.net}
			if !mutated {
				want := netAccepts(n, a)
				if want && (err != nil || !bytes.Equal(script, a.script)) {
					r.Violate(mc.Violation{Class: "standard-address-not-decoded-to-its-script:" + a.kind, Msg: fmt.Sprintf("%s on %s: err=%v script=%x want %x", str, n.name, err, script, a.script), Detail: c}, nil)
				}
				if !want && err == nil {
					cls := "foreign-network-address-accepted:" + a.kind
					if a.script == nil {
						cls = "pay-to-pubkey-address-accepted"
					}
					r.Violate(mc.Violation{Class: cls, Msg: fmt.Sprintf("%s (%s) accepted on %s", str, a.id, n.name), Detail: c}, nil)
				}
				if err == nil {
					r.Outcome("address-accepted:" + a.kind)
				} else {
					r.Outcome("address-rejected:" + a.kind)
				}
				continue
			}
			// mutated strings: reference decoder
			ref, rerr := btcutil.DecodeAddress(str, n.params)
			okRef := rerr == nil && ref.IsForNet(n.params)
			if _, isPK := ref.(*btcutil.AddressPubKey); isPK {
				okRef = false
			}
			if err == nil && !okRef {
				r.Violate(mc.Violation{Class: "mutated-address-accepted", Msg: fmt.Sprintf("%q accepted on %s (reference decoder: %v)", str, n.name, rerr), Detail: c}, nil)
			}
			if err == nil {
				want, _ := txscript.PayToAddrScript(ref)
				if !bytes.Equal(want, script) {
					r.Violate(mc.Violation{Class: "mutated-address-wrong-script", Msg: fmt.Sprintf("%q -> %x, reference %x", str, script, want), Detail: c}, nil)
				}
				r.Outcome("mutated-accepted")
			} else {
				r.Outcome("mutated-rejected")
			}
		}
	}
	for _, a := range addrs {
		check(a, a.addr, false)
		if a.script == nil {
			continue
		}
		for pos := 0; pos < len(a.addr); pos++ {
			for _, sy := range symbols {
				if a.addr[pos] == sy {
					continue
				}
				m := []byte(a.addr)
				m[pos] = sy
				check(a, string(m), true)
			}
		}
		check(a, strings.ToUpper(a.addr), true)
		check(a, a.addr+"q", true)
		check(a, a.addr[:len(a.addr)-1], true)
		for _, pad := range c17Pads {
			check(a, pad+a.addr, true)
			check(a, a.addr+pad, true)
		}
	}
	check(wdAddr{kind: "empty"}, "", true)

	// ---- end to end: a withdrawal with a given address is pending iff it decodes for the chain's network (regtest)
	ctx, _ := w.root.CacheContext()
	kp := w.n.App.BitcoinKeeper
	var reg netID
	for _, n := range c17Nets {
		if n.name == "regtest" {
			reg = n
		}
	}
	// the genuine strings, and for every one of them the same string padded with a blank, tab,
	// newline, carriage return or NUL at either end, upper-cased, extended and truncated: whatever
	// the handler does to the string before deciding, the decision must be the reference decoder's
	// on the string as requested, and a pending withdrawal must carry an address that decodes
	e2e := append([]wdAddr{}, addrs...)
	for _, a := range addrs {
		if a.script == nil {
			continue
		}
		var edits []string
		for _, pad := range c17Pads {
			edits = append(edits, pad+a.addr, a.addr+pad)
		}
		edits = append(edits, strings.ToUpper(a.addr), a.addr+"q", a.addr[:len(a.addr)-1])
		for _, e := range edits {
			e2e = append(e2e, wdAddr{kind: a.kind + "-edited", net: a.net, addr: e, id: "edited"})
		}
	}
	for i, a := range e2e {
		id := uint64(1000 + i)
		err := kp.ProcessBridgeRequest(ctx, goattypes.BridgeRequests{Withdraws: []*goattypes.WithdrawalRequest{{Id: id, Amount: 100000, TxPrice: 10, Address: a.addr}}})
		r.Transitions.Add(1)
		r.Validated.Add(1)
		if err != nil {
			r.Violate(mc.Violation{Class: "withdraw-request-fails", Msg: err.Error(), Detail: c17Case{Part: "withdrawal", Address: a.addr}}, nil)
			continue
		}
		wd, err := kp.Withdrawals.Get(ctx, id)
		must(err)
		q, _ := kp.EthTxQueue.Get(ctx)
		refunded := false
		for _, rid := range q.RejectedWithdrawals {
			if rid == id {
				refunded = true
			}
		}
		want := netAccepts(reg, a)
		if a.id == "edited" {
			ref, rerr := btcutil.DecodeAddress(a.addr, reg.params)
			want = rerr == nil && ref.IsForNet(reg.params)
			if _, isPK := ref.(*btcutil.AddressPubKey); isPK {
				want = false
			}
		}
		pending := wd.Status == bitcointypes.WITHDRAWAL_STATUS_PENDING
		if pending {
			if _, derr := bitcointypes.DecodeBtcAddress(wd.Address, reg.params); derr != nil {
				r.Violate(mc.Violation{Class: "pending-withdrawal-with-undecodable-address:" + a.kind, Msg: fmt.Sprintf("%q is pending but its stored address does not decode: %v", wd.Address, derr), Detail: c17Case{Part: "withdrawal", Address: a.addr}}, nil)
			}
		}
		if pending != want || refunded == want {
			r.Violate(mc.Violation{Class: "withdrawal-admission-differs-from-address-validity:" + a.kind, Msg: fmt.Sprintf("%s (%s@%s): status %s refunded=%v, decodable for regtest=%v", a.addr, a.kind, a.net, wd.Status, refunded, want), Detail: c17Case{Part: "withdrawal", Address: a.addr}}, nil)
		}
		if pending {
			r.Outcome("withdrawal-pending")
		} else {
			r.Outcome("withdrawal-refunded")
		}
	}
	// the same address several times in one request list: every single request is decided on its own
	// address (a refusal of the first occurrence must not let the later ones through, nor the reverse)
	for i, a := range addrs {
		bctx, _ := w.root.CacheContext()
		base := uint64(5000 + 10*i)
		var reqs []*goattypes.WithdrawalRequest
		for k := uint64(0); k < 3; k++ {
			reqs = append(reqs, &goattypes.WithdrawalRequest{Id: base + k, Amount: 100000, TxPrice: 10, Address: a.addr})
		}
		err := kp.ProcessBridgeRequest(bctx, goattypes.BridgeRequests{Withdraws: reqs})
		r.Transitions.Add(1)
		r.Validated.Add(1)
		if err != nil {
			r.Violate(mc.Violation{Class: "withdraw-request-fails", Msg: err.Error(), Detail: c17Case{Part: "withdrawal", Address: a.addr}}, nil)
			continue
		}
		want := netAccepts(reg, a)
		q, _ := kp.EthTxQueue.Get(bctx)
		for k := uint64(0); k < 3; k++ {
			wd, err := kp.Withdrawals.Get(bctx, base+k)
			must(err)
			refunded := false
			for _, rid := range q.RejectedWithdrawals {
				if rid == base+k {
					refunded = true
				}
			}
			if pending := wd.Status == bitcointypes.WITHDRAWAL_STATUS_PENDING; pending != want || refunded == want {
				r.Violate(mc.Violation{Class: "repeated-address-decided-differently:" + a.kind, Msg: fmt.Sprintf("occurrence %d of %s (%s@%s) in one request list: status %s refunded=%v, decodable for regtest=%v", k+1, a.addr, a.kind, a.net, wd.Status, refunded, want), Detail: c17Case{Part: "withdrawal", Address: a.addr}}, nil)
			}
		}
		r.Outcome("repeated-address-batch")
	}
	r.Sample(map[string]any{"deposit_case": c17Case{Part: "deposit", Key: pubHex(keys[0].Public()), Evm: hex.EncodeToString(evms[2]), Network: "regtest", Version: 1, Magic: "47545430"}})
	r.Sample(map[string]any{"withdrawal_addresses": []string{addrs[0].addr, addrs[7].addr, addrs[19].addr, addrs[20].addr}})
	_ = btcec.PubKeyBytesLenCompressed
}

func replayC17(detail json.RawMessage) (bool, string) {
	return false, "C17 cases are pure function calls; re-run bin/check C17 quick (sub-second) to reproduce"
}

func init() { register(&Check{ID: "C17", Run: runC17, Replay: replayC17}) }
