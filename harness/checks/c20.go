package checks

import (
	"encoding/json"
	"fmt"
	"runtime"
	"sort"
	"sync"

	"github.com/ethereum/go-ethereum/core/types/goattypes"
	bitcointypes "github.com/goatnetwork/goat/x/bitcoin/types"
	"verifharness/mc"
)

// C20 – bridge parameters set from the execution layer stay within safe bounds.
// BFS to fixpoint over the parameter states reachable through ProcessBridgeRequest with a
// 12-value alphabet; in every reachable state deposits of several values are verified.

type pState struct {
	Rate, Max, Conf, Min uint64
}

type c20Req struct {
	Kind string `json:"kind"` // tax conf min
	A    uint64 `json:"a"`
	B    uint64 `json:"b,omitempty"`
}

type c20Detail struct {
	From    pState   `json:"from"`
	Reqs    []c20Req `json:"requests"`
	To      pState   `json:"to"`
	Dep     int64    `json:"deposit_value,omitempty"`
	DepKind string   `json:"deposit_kind,omitempty"`
	Net     string   `json:"bitcoin_network,omitempty"`
}

var c20V = []uint64{0, 1, 999, 1000, 1001, 9999, 10000, 10001, 1 << 32, 1<<63 - 1, 1 << 63, 1<<64 - 1}

const dustLimit = 1000 // the protocol's dust limit, fixed here on purpose

func c20Apply(w *depWorld, s pState, reqs []c20Req) (pState, error) {
	return c20ApplyNet(w, s, reqs, "")
}

// c20ApplyNet applies the requests on a chain configured for the given bitcoin network
// ("" = the default of the test genesis).
func c20ApplyNet(w *depWorld, s pState, reqs []c20Req, network string) (pState, error) {
	ctx, _ := w.root.CacheContext()
	k := w.n.App.BitcoinKeeper
	p, err := k.Params.Get(ctx)
	must(err)
	if network != "" {
		p.NetworkName = network
	}
	p.DepositTaxRate, p.MaxDepositTax, p.ConfirmationNumber, p.MinDepositAmount = s.Rate, s.Max, s.Conf, s.Min
	must(k.Params.Set(ctx, p))
	var br goattypes.BridgeRequests
	for _, r := range reqs {
		switch r.Kind {
		case "tax":
			br.DepositTax = append(br.DepositTax, &goattypes.DepositTaxRequest{Rate: r.A, Max: r.B})
		case "conf":
			br.Confirmation = append(br.Confirmation, &goattypes.ConfirmationNumberRequest{Number: r.A})
		case "min":
			br.MinDeposit = append(br.MinDeposit, &goattypes.MinDepositRequest{Satoshi: r.A})
		}
	}
	if err := k.ProcessBridgeRequest(ctx, br); err != nil {
		return s, err
	}
	np, err := k.Params.Get(ctx)
	must(err)
	return pState{np.DepositTaxRate, np.MaxDepositTax, np.ConfirmationNumber, np.MinDepositAmount}, nil
}

func c20Menu(vals []uint64) [][]c20Req {
	var m [][]c20Req
	for _, a := range vals {
		for _, b := range vals {
			m = append(m, []c20Req{{Kind: "tax", A: a, B: b}})
		}
		m = append(m, []c20Req{{Kind: "conf", A: a}}, []c20Req{{Kind: "min", A: a}})
	}
	// two kinds of request in one block: every pair of values of different kinds (a leftover of one
	// kind's processing must not leak into the other's)
	for _, a := range vals {
		for _, b := range vals {
			m = append(m, []c20Req{{Kind: "conf", A: a}, {Kind: "min", A: b}})
			m = append(m, []c20Req{{Kind: "tax", A: a, B: b}, {Kind: "min", A: b}})
			m = append(m, []c20Req{{Kind: "tax", A: a, B: b}, {Kind: "conf", A: a}})
		}
	}
	// several requests in one block
	m = append(m,
		[]c20Req{{Kind: "tax", A: 9999, B: 1}, {Kind: "tax", A: 10000, B: 0}},
		[]c20Req{{Kind: "tax", A: 10000, B: 5}, {Kind: "tax", A: 1, B: 0}},
		[]c20Req{{Kind: "min", A: 1001}, {Kind: "min", A: 1000}},
		[]c20Req{{Kind: "min", A: 0}, {Kind: "conf", A: 0}, {Kind: "tax", A: 1<<64 - 1, B: 1<<64 - 1}},
		[]c20Req{{Kind: "conf", A: 7}, {Kind: "conf", A: 0}},
	)
	return m
}

func safe(s pState) string {
	switch {
	case s.Rate >= 10000:
		return fmt.Sprintf("tax rate %d >= 100%%", s.Rate)
	case s.Min <= dustLimit:
		return fmt.Sprintf("minimum deposit %d <= dust limit %d", s.Min, dustLimit)
	case s.Conf < 1:
		return "confirmation depth 0"
	}
	return ""
}

func runC20(r *mc.Run) {
	r.Rule = "BFS to fixpoint over bridge parameter states (rate, cap, confirmations, minimum) from three safe genesis corners under DepositTax/Confirmation/MinDeposit requests over a 12-value 64-bit alphabet (single requests, every pair of values of two different kinds in one request list, and further multi-request lists), each applied by the real ProcessBridgeRequest; the whole menu again from the three corners on every configurable bitcoin network; in every reachable state deposits of 8 values in each of the three deposit forms (version 0 with a secp256k1 key, version 0 with a Schnorr key, version 1) go through the real MsgNewDeposits handler; request lists (each value alone, next to in-range requests of the other kinds, after an in-range request of its own kind) inside an execution block through the real PrepareProposal/ProcessProposal/FinalizeBlock together with a withdrawal request: block applied, same parameters as the direct keeper call, last in-range request wins, withdrawal on record; oracle = bounds invariant, targeted parameter unchanged by out-of-range requests, 0 <= tax < value, amount > 0, value >= minimum > dust"
	r.Assumptions = []string{"parameter states are materialised by writing Params on a branch (the handler reads nothing else)", "dust limit fixed at 1000 satoshi in the oracle"}
	vals := c20V
	if r.Thorough() {
		vals = append(append([]uint64{}, c20V...), 2, 546, 9998, 10002, 1<<31, 1<<33, 100_000_000, 100_000_001)
	}
	r.Bounds["value_alphabet_size"] = len(vals)
	menu := c20Menu(vals)
	corners := []pState{{0, 0, 1, 10000}, {9999, 1, 1, 1001}, {1, 100_000_000, 6, 1 << 62}}
	seen := map[pState]bool{}
	var frontier []pState
	for _, c := range corners {
		seen[c] = true
		frontier = append(frontier, c)
	}
	var mu sync.Mutex
	var pool []*depWorld
	get := func() *depWorld {
		mu.Lock()
		defer mu.Unlock()
		if len(pool) > 0 {
			w := pool[len(pool)-1]
			pool = pool[:len(pool)-1]
			return w
		}
		w, err := newDepWorld()
		if err != nil {
			panic(err)
		}
		return w
	}
	put := func(w *depWorld) { mu.Lock(); pool = append(pool, w); mu.Unlock() }
	depValues := []int64{1000, 1001, 9999, 10000, 10001, 19999, 100_000_000, 1 << 62}
	level := 0
	for len(frontier) > 0 {
		var next []pState
		var nmu sync.Mutex
		cur := frontier
		mc.Parallel(len(cur), runtime.NumCPU(), func(i int) {
			s := cur[i]
			w := get()
			defer put(w)
			// deposits in this parameter state
			for _, v := range depValues {
				for _, kind := range []string{"v0-secp", "v0-schnorr", "v1-secp"} { // every deposit form: the bounds must hold on each path through deposit checking
					c := &depCase{Pos: 1, NTx: 2, Height: c03Mature, Kind: kind, Value: v, Rate: s.Rate, Cap: s.Max, MinDep: s.Min}
					acc, msg, class := w.eval(c)
					r.Transitions.Add(1)
					r.Validated.Add(1)
					if msg != "" {
						r.Violate(mc.Violation{Class: "deposit:" + class, Msg: fmt.Sprintf("params %+v value %d: %s", s, v, msg), Detail: c20Detail{From: s, To: s, Dep: v, DepKind: kind}}, nil)
					}
					if acc {
						r.Outcome("deposit-accepted")
						if uint64(v) <= dustLimit || uint64(v) < s.Min {
							r.Violate(mc.Violation{Class: "dust-or-below-minimum-deposit-accepted", Msg: fmt.Sprintf("params %+v accept %s deposit of value %d", s, kind, v), Detail: c20Detail{From: s, To: s, Dep: v, DepKind: kind}}, nil)
						}
					} else {
						r.Outcome("deposit-rejected")
					}
				}
			}
			for _, reqs := range menu {
				ns, err := c20Apply(w, s, reqs)
				r.Transitions.Add(1)
				r.Validated.Add(1)
				d := c20Detail{From: s, Reqs: reqs, To: ns}
				if err != nil {
					r.Violate(mc.Violation{Class: "parameter-request-fails", Msg: fmt.Sprintf("%+v from %+v: %v", reqs, s, err), Detail: d}, nil)
					continue
				}
				if why := safe(ns); why != "" {
					r.Violate(mc.Violation{Class: "unsafe-parameters:" + why[:8], Msg: fmt.Sprintf("%+v --%+v--> %+v: %s", s, reqs, ns, why), Detail: d}, nil)
					continue
				}
				// a single out-of-range request leaves the parameter it targets unchanged
				if len(reqs) == 1 {
					q := reqs[0]
					switch {
					case q.Kind == "tax" && q.A >= 10000 && ns.Rate != s.Rate:
						r.Violate(mc.Violation{Class: "out-of-range-rate-applied", Msg: fmt.Sprintf("%+v --%+v--> %+v", s, q, ns), Detail: d}, nil)
					case q.Kind == "conf" && q.A == 0 && ns.Conf != s.Conf:
						r.Violate(mc.Violation{Class: "zero-confirmation-applied", Msg: fmt.Sprintf("%+v --%+v--> %+v", s, q, ns), Detail: d}, nil)
					case q.Kind == "min" && q.A <= dustLimit && ns.Min != s.Min:
						r.Violate(mc.Violation{Class: "dust-minimum-applied", Msg: fmt.Sprintf("%+v --%+v--> %+v", s, q, ns), Detail: d}, nil)
					}
					if ns == s {
						r.Outcome("request-no-change")
					} else {
						r.Outcome("request-applied")
					}
				}
				nmu.Lock()
				if !seen[ns] {
					seen[ns] = true
					next = append(next, ns)
				}
				nmu.Unlock()
			}
		})
		r.States.Add(int64(len(cur)))
		frontier = next
		level++
		if r.Expired() {
			r.Cap("time budget before fixpoint")
			break
		}
	}
	// the same bounds on every bitcoin network the chain can be configured for: from the three
	// corners, every request list of the menu
	var nets []string
	for name := range bitcointypes.BitcoinNetworks {
		nets = append(nets, name)
	}
	sort.Strings(nets)
	r.Bounds["bitcoin_networks"] = nets
	type nj struct {
		net  string
		from pState
	}
	var njobs []nj
	for _, n := range nets {
		for _, c := range corners {
			njobs = append(njobs, nj{n, c})
		}
	}
	mc.Parallel(len(njobs), runtime.NumCPU(), func(i int) {
		j := njobs[i]
		w := get()
		defer put(w)
		for _, reqs := range menu {
			ns, err := c20ApplyNet(w, j.from, reqs, j.net)
			r.Transitions.Add(1)
			r.Validated.Add(1)
			d := c20Detail{From: j.from, Reqs: reqs, To: ns, Net: j.net}
			if err != nil {
				r.Violate(mc.Violation{Class: "parameter-request-fails", Msg: fmt.Sprintf("%+v from %+v on %s: %v", reqs, j.from, j.net, err), Detail: d}, nil)
				continue
			}
			if why := safe(ns); why != "" {
				r.Violate(mc.Violation{Class: "unsafe-parameters:" + why[:8], Msg: fmt.Sprintf("on %s: %+v --%+v--> %+v: %s", j.net, j.from, reqs, ns, why), Detail: d}, nil)
			}
		}
		r.Outcome("network-corner-swept")
	})
	c20Pipeline(r, vals)
	r.Bounds["bfs_levels_to_fixpoint"] = level
	r.Bounds["reachable_parameter_states"] = len(seen)
	r.Sample(c20Detail{From: corners[1], Reqs: menu[17], To: corners[1]})
	r.Sample(map[string]any{"value_alphabet": vals, "deposit_values": depValues})
	for _, w := range pool {
		w.close()
	}
}

func replayC20(detail json.RawMessage) (bool, string) {
	var d c20Detail
	if err := json.Unmarshal(detail, &d); err != nil {
		return false, err.Error()
	}
	w, err := newDepWorld()
	if err != nil {
		return false, err.Error()
	}
	defer w.close()
	if d.Dep != 0 {
		kind := d.DepKind
		if kind == "" {
			kind = "v0-secp"
		}
		c := &depCase{Pos: 1, NTx: 2, Height: c03Mature, Kind: kind, Value: d.Dep, Rate: d.From.Rate, Cap: d.From.Max, MinDep: d.From.Min}
		acc, msg, _ := w.eval(c)
		bad := msg != "" || (acc && (uint64(d.Dep) <= dustLimit || uint64(d.Dep) < d.From.Min))
		return bad, fmt.Sprintf("accepted=%v %s", acc, msg)
	}
	ns, err := c20ApplyNet(w, d.From, d.Reqs, d.Net)
	if err != nil {
		return true, err.Error()
	}
	return safe(ns) != "" || ns == d.To && d.To != d.From && false, fmt.Sprintf("%+v -> %+v %s", d.From, ns, safe(ns))
}

var _ = bitcointypes.DustTxoutAmount

func init() { register(&Check{ID: "C20", Run: runC20, Replay: replayC20}) }
