package checks

import (
	"bufio"
	"bytes"
	"crypto/sha256"
	"encoding/json"
	"fmt"
	"os"
	"os/exec"
	"path/filepath"
	"runtime"
	"sort"
	"strings"
	"sync"
	"time"

	abci "github.com/cometbft/cometbft/abci/types"
	"verifharness/enga"
	"verifharness/mc"
	"verifharness/ovl"
	"verifharness/sim"
)

// C07 – state transition is deterministic across replicas, re-execution and restart,
// regardless of map iteration order and wall-clock time.

type c07Scenario struct {
	Name  string        `json:"name"`
	Setup []enga.ABlock `json:"setup"`
	Block enga.ABlock   `json:"block"`
}

func c07Scenarios(thorough bool) []c07Scenario {
	ev := func(es ...enga.Event) enga.ABlock { return enga.ABlock{Events: es} }
	busy := []enga.ABlock{ev(enga.Event{Kind: "tx:hashes", N: 2}, enga.Event{Kind: "req:withdraw", N: 3}), ev(enga.Event{Kind: "tx:deposits", N: 2}, enga.Event{Kind: "tx:process", N: 2})}
	sc := []c07Scenario{
		{Name: "empty", Block: enga.ABlock{}},
		{Name: "lock-good+unknown-validator", Block: ev(enga.Event{Kind: "req:lock", N: 1}, enga.Event{Kind: "req:unknown-validator-lock"})},
		{Name: "lock-two-validators-one-unknown", Block: ev(enga.Event{Kind: "req:lock", N: 1}, enga.Event{Kind: "req:lock2", N: 1}, enga.Event{Kind: "req:unknown-validator-lock"})},
		{Name: "lock-unknown-validator+unknown-token", Block: ev(enga.Event{Kind: "req:unknown-validator-lock"}, enga.Event{Kind: "req:unknown-token-lock"})},
		{Name: "two-validators-leave", Block: ev(enga.Event{Kind: "req:unlock-big", N: 0}, enga.Event{Kind: "req:create", N: 3}), Setup: []enga.ABlock{ev(enga.Event{Kind: "req:create", N: 3})}},
		{Name: "relayer-txs", Setup: busy[:1], Block: ev(enga.Event{Kind: "tx:deposits", N: 9}, enga.Event{Kind: "tx:process", N: 2}, enga.Event{Kind: "req:claim", N: 2})},
		{Name: "deposit-batch-with-bad-headers", Setup: []enga.ABlock{ev(enga.Event{Kind: "tx:hashes", N: 2})}, Block: ev(enga.Event{Kind: "tx:deposits-bad-headers"}, enga.Event{Kind: "tx:deposits", N: 2})},
		{Name: "deposits-after-deposits", Setup: []enga.ABlock{ev(enga.Event{Kind: "tx:hashes", N: 2}), ev(enga.Event{Kind: "tx:deposits", N: 1}, enga.Event{Kind: "tx:newpubkey", Var: "existing"})}, Block: ev(enga.Event{Kind: "tx:deposits", N: 2}, enga.Event{Kind: "tx:newpubkey"})},
		{Name: "failing-relayer-tx", Block: ev(enga.Event{Kind: "tx:newpubkey", Var: "existing"}, enga.Event{Kind: "tx:hashes", N: 1, Var: "gap"})},
		{Name: "rejected-vote-presented-again", Setup: []enga.ABlock{ev(enga.Event{Kind: "tx:hashes", N: 1}), ev(enga.Event{Kind: "tx:replay", Var: "rewrite-context"}, enga.Event{Kind: "tx:replay", Var: "other-action"})},
			Block: ev(enga.Event{Kind: "tx:replay", Var: "rewrite-context"}, enga.Event{Kind: "tx:replay", Var: "other-action"}, enga.Event{Kind: "tx:replay", Var: "rewrite-context"})},
		{Name: "evidence-old-in-blocks-young-in-time", Setup: []enga.ABlock{{}, {}, {}, {}, {}}, Block: enga.ABlock{Evidence: []int{1}, EvAgeBlocks: 5, EvAgeSecs: 5}},
		{Name: "evidence-old-in-blocks-and-time", Setup: []enga.ABlock{{}, {}, {}, {}, {Dt: 30}}, Block: enga.ABlock{Evidence: []int{1}, EvAgeBlocks: 5, EvAgeSecs: 34}},
		{Name: "finalize-retried-after-a-stale-header", Setup: []enga.ABlock{ev(enga.Event{Kind: "req:withdraw", N: 2}), ev(enga.Event{Kind: "tx:process", N: 2}), ev(enga.Event{Kind: "tx:hashes", N: 1}),
			ev(enga.Event{Kind: "tx:finalize", Var: "stale-header"})}, Block: ev(enga.Event{Kind: "tx:finalize"})},
		{Name: "downtime+evidence", Block: enga.ABlock{Absent: []int{1}, Evidence: []int{1}}, Setup: []enga.ABlock{{Absent: []int{1}}}},
		// the only weighted token loses its weight: nobody has voting power any more, every member of
		// the set leaves at once (whatever the module does then, it does the same on every replica)
		{Name: "every-candidate-loses-its-power", Setup: []enga.ABlock{ev(enga.Event{Kind: "req:create", N: 3})}, Block: ev(enga.Event{Kind: "req:weight", N: 0})},
	}
	if thorough {
		sc = append(sc,
			c07Scenario{Name: "finalize+hand-over", Setup: busy, Block: ev(enga.Event{Kind: "tx:hashes", N: 1}, enga.Event{Kind: "tx:finalize"})},
			c07Scenario{Name: "election+membership", Setup: []enga.ABlock{ev(enga.Event{Kind: "req:addvoter"}), ev(enga.Event{Kind: "tx:newvoter"})}, Block: enga.ABlock{Dt: 7, Events: []enga.Event{{Kind: "req:removevoter"}}}},
			c07Scenario{Name: "weight-change", Setup: []enga.ABlock{ev(enga.Event{Kind: "req:create", N: 3})}, Block: ev(enga.Event{Kind: "req:weight", N: 2})},
		)
	}
	return sc
}

// c07Outcome is what must be equal on every replica.
type c07Outcome struct {
	AppHash  string   `json:"app_hash"`
	Txs      []string `json:"tx_results"`
	Updates  []string `json:"validator_updates_sorted"`
	Calls    []string `json:"engine_calls"`
	FinCalls []string `json:"engine_calls_during_finalize_block"`
	// PartialLog: this replica did not run ProcessProposal in the process that finalised the block
	// (replay after a crash, block sync), so only the FinalizeBlock part of the log is comparable
	PartialLog bool   `json:"partial_engine_log,omitempty"`
	Dump       string `json:"store_dump"`
	NextHash   string `json:"next_block_app_hash,omitempty"`
	Err        string `json:"error,omitempty"`
}

func (o c07Outcome) digest() string {
	bz, _ := json.Marshal(o)
	h := sha256.Sum256(bz)
	return fmt.Sprintf("%x", h[:10])
}

func (o c07Outcome) diff(p c07Outcome) string {
	var d []string
	if o.AppHash != p.AppHash {
		d = append(d, "app hash")
	}
	if fmt.Sprint(o.Txs) != fmt.Sprint(p.Txs) {
		for i := range o.Txs {
			if i < len(p.Txs) && o.Txs[i] != p.Txs[i] {
				d = append(d, fmt.Sprintf("tx %d result %s vs %s", i, o.Txs[i], p.Txs[i]))
			}
		}
	}
	if fmt.Sprint(o.Updates) != fmt.Sprint(p.Updates) {
		d = append(d, "validator updates")
	}
	if !o.PartialLog && !p.PartialLog && fmt.Sprint(o.Calls) != fmt.Sprint(p.Calls) {
		d = append(d, "engine calls")
	}
	if fmt.Sprint(o.FinCalls) != fmt.Sprint(p.FinCalls) {
		d = append(d, fmt.Sprintf("engine calls during FinalizeBlock %v vs %v", o.FinCalls, p.FinCalls))
	}
	if o.Dump != p.Dump {
		d = append(d, "store dump")
	}
	if o.NextHash != p.NextHash {
		d = append(d, "next block app hash")
	}
	if o.Err != p.Err {
		d = append(d, "error "+o.Err+" vs "+p.Err)
	}
	return strings.Join(d, "; ")
}

func c07FinalizeOutcome(fr *abci.ResponseFinalizeBlock) c07Outcome {
	o := c07Outcome{AppHash: fmt.Sprintf("%x", fr.AppHash)}
	for _, t := range fr.TxResults {
		o.Txs = append(o.Txs, fmt.Sprintf("code=%d/%s gas=%d/%d data=%x", t.Code, t.Codespace, t.GasWanted, t.GasUsed, t.Data))
	}
	for _, u := range fr.ValidatorUpdates {
		o.Updates = append(o.Updates, fmt.Sprintf("%x:%d", sim.CmtAddr(u), u.Power))
	}
	sort.Strings(o.Updates)
	return o
}

// c07Exec executes the given transactions as the next block of w in the given mode.
func c07Exec(w *enga.World, blk *sim.Block, txs [][]byte, mode string) c07Outcome {
	b := *blk
	b.Txs = txs
	n := w.N
	fail := func(stage string, err error) c07Outcome { return c07Outcome{Err: stage + ": " + err.Error()} }
	n.EL.ResetCalls()
	if mode != "finalize-without-process" {
		pr, err := n.Process(&b, txs)
		if err != nil || pr.Status != abci.ResponseProcessProposal_ACCEPT {
			return c07Outcome{Err: fmt.Sprintf("process: %v %v", pr, err)}
		}
	}
	if mode == "second-proposal-round" {
		var pr *abci.ResponseProcessProposal
		var err error
		// the proposal is checked again in a later round before it is finalised
		n.EL.ResetCalls()
		if pr, err = n.Process(&b, txs); err != nil || pr.Status != abci.ResponseProcessProposal_ACCEPT {
			return c07Outcome{Err: fmt.Sprintf("process (2nd round): %v %v", pr, err)}
		}
	}
	partial := mode == "finalize-without-process" // a decided block replayed to a node that never saw its proposal
	switch mode {
	case "restart-between-process-and-finalize":
		// the process that finalises the block never saw its proposal: a restart after the
		// proposal was accepted, CometBFT replaying a decided block, a node catching up
		if err := n.Restart(); err != nil {
			return fail("restart", err)
		}
		partial = true
	}
	preFin := len(n.EL.Calls())
	fr, err := n.Finalize(&b, txs)
	if err != nil {
		return fail("finalize", err)
	}
	finCalls := func() (out []string) {
		for _, c := range n.EL.Calls()[preFin:] {
			out = append(out, c.Method+":"+c.Digest)
		}
		return
	}
	fin := finCalls()
	switch mode {
	case "restart-before-commit":
		if err := n.Restart(); err != nil {
			return fail("restart", err)
		}
		n.EL.ResetCalls()
		if _, err := n.Process(&b, txs); err != nil {
			return fail("process-after-restart", err)
		}
		preFin = len(n.EL.Calls())
		if fr, err = n.Finalize(&b, txs); err != nil {
			return fail("finalize-after-restart", err)
		}
		fin = finCalls()
	}
	o := c07FinalizeOutcome(fr)
	o.FinCalls, o.PartialLog = fin, partial
	for _, c := range n.EL.Calls() {
		o.Calls = append(o.Calls, c.Method+":"+c.Digest)
	}
	if err := n.Commit(&b, txs, fr); err != nil {
		if strings.Contains(err.Error(), "validator set would become empty") {
			// the block removes every validator: CometBFT would refuse that (environment assumption of the
			// other checks). What FinalizeBlock answered is still comparable across replicas.
			o.Dump = "not committed: the validator set would become empty"
			return o
		}
		return fail("commit", err)
	}
	if mode == "restart-after-commit" {
		if err := n.Restart(); err != nil {
			return fail("restart", err)
		}
	}
	o.Dump = n.DumpStores(n.Ctx()).Hash()
	// the following (empty, harness-assembled) block exposes the results hash / reloaded state
	eth, _, err := n.BuildEthBlockTx(sim.EthBlockOpts{})
	if err != nil {
		return fail("next-build", err)
	}
	nb := &sim.Block{TimeDelta: 1e9, Txs: [][]byte{eth}}
	if _, err := n.Process(nb, nb.Txs); err != nil {
		return fail("next-process", err)
	}
	nfr, err := n.Finalize(nb, nb.Txs)
	if err != nil {
		return fail("next-finalize", err)
	}
	o.NextHash = fmt.Sprintf("%x", nfr.AppHash)
	return o
}

// c07Prepare builds the scenario's state and the block (transactions fixed once).
func c07Prepare(sc c07Scenario) (*enga.World, *sim.Block, [][]byte) {
	w, err := enga.NewWorld(c18Cfg())
	must(err)
	for _, b := range sc.Setup {
		if rr := w.Run(b); rr.Err != nil {
			panic(fmt.Sprintf("scenario %s setup: %v", sc.Name, rr.Err))
		}
	}
	a, err := w.Fork()
	must(err)
	defer a.Close()
	blk := sc.Block
	blk.Mode = "built"
	res := a.Run(blk)
	if res.SimBlock == nil || res.Txs == nil {
		panic(fmt.Sprintf("scenario %s: block not built: %v", sc.Name, res.Err))
	}
	return w, res.SimBlock, res.Txs
}

type c07Site struct {
	Func  string
	Count int
	B     uint8
}

// c07MapRun executes the block with the map-iteration hook answering `choice[k]` at the
// k-th iteration (over a map with >= 2 entries) of the calling goroutine, 0 beyond.
func c07MapRun(w *enga.World, blk *sim.Block, txs [][]byte, choice map[int]uint64) (c07Outcome, []c07Site) {
	x, err := w.Fork()
	must(err)
	defer x.Close()
	var sites []c07Site
	busy := false
	k := 0
	hook := func(pc uintptr, count int, B uint8) uint64 {
		if busy || count < 2 {
			return 0
		}
		busy = true
		name := "?"
		if f := runtime.FuncForPC(pc); f != nil {
			name = f.Name()
		}
		sites = append(sites, c07Site{Func: name, Count: count, B: B})
		r := choice[k]
		k++
		busy = false
		return r
	}
	b := *blk
	b.Txs = txs
	n := x.N
	if _, err := n.Process(&b, txs); err != nil {
		return c07Outcome{Err: "process: " + err.Error()}, nil
	}
	ovl.SetMapIterHook(hook)
	fr, err := n.Finalize(&b, txs)
	ovl.SetMapIterHook(nil)
	if err != nil {
		return c07Outcome{Err: "finalize: " + err.Error()}, sites
	}
	o := c07FinalizeOutcome(fr)
	if err := n.Commit(&b, txs, fr); err != nil {
		return c07Outcome{Err: "commit: " + err.Error()}, sites
	}
	o.Dump = n.DumpStores(n.Ctx()).Hash()
	return o, sites
}

func alternatives(s c07Site) int {
	n := 8 << s.B
	if s.B == 0 && s.Count < 8 {
		n = s.Count // starts beyond the last occupied slot wrap to the first entry
	}
	if n > 64 {
		n = 64
	}
	return n
}

type c07Job struct {
	Choice map[int]uint64
	Site   string
}

// c07Jobs enumerates the deviations: every combination of starts at the range sites inside
// goat's own packages, and single deviations at every other site.
func c07Jobs(sites []c07Site, depDeviations int) []c07Job {
	var jobs []c07Job
	var repo []int
	for i, s := range sites {
		if strings.Contains(s.Func, "goatnetwork/goat") {
			repo = append(repo, i)
		}
	}
	// full product over repo sites (capped)
	var rec func(i int, cur map[int]uint64)
	rec = func(i int, cur map[int]uint64) {
		if len(jobs) > 4096 {
			return
		}
		if i == len(repo) {
			nonzero := false
			c := map[int]uint64{}
			for k, v := range cur {
				c[k] = v
				if v != 0 {
					nonzero = true
				}
			}
			if nonzero {
				names := []string{}
				for _, r := range repo {
					if c[r] != 0 {
						names = append(names, sites[r].Func)
					}
				}
				jobs = append(jobs, c07Job{Choice: c, Site: strings.Join(names, "+")})
			}
			return
		}
		for v := 0; v < alternatives(sites[repo[i]]); v++ {
			cur[repo[i]] = uint64(v)
			rec(i+1, cur)
		}
		delete(cur, repo[i])
	}
	rec(0, map[int]uint64{})
	for i, s := range sites {
		if strings.Contains(s.Func, "goatnetwork/goat") {
			continue
		}
		for v := 1; v < alternatives(s); v++ {
			jobs = append(jobs, c07Job{Choice: map[int]uint64{i: uint64(v)}, Site: s.Func})
		}
	}
	if depDeviations >= 2 {
		// deviation bound 2: every pair of sites, each moved to its next start
		for i := range sites {
			for j := i + 1; j < len(sites); j++ {
				if alternatives(sites[i]) < 2 || alternatives(sites[j]) < 2 {
					continue
				}
				jobs = append(jobs, c07Job{Choice: map[int]uint64{i: 1, j: 1}, Site: sites[i].Func + "+" + sites[j].Func})
			}
		}
	}
	return jobs
}

type c07WorkerLine struct {
	Job    int    `json:"job"`
	Site   string `json:"site"`
	Digest string `json:"digest"`
	Diff   string `json:"diff,omitempty"`
	Sites  int    `json:"sites,omitempty"`
	Repo   int    `json:"repo_sites,omitempty"`
	Jobs   int    `json:"jobs,omitempty"`
	End    bool   `json:"end,omitempty"`
}

// C07Worker explores the map-order deviations job ≡ idx (mod n) of one scenario.
func C07Worker(scName string, idx, n int, thorough bool) {
	if !ovl.Enabled {
		panic("c07worker needs the overlay build")
	}
	var sc c07Scenario
	for _, s := range c07Scenarios(true) {
		if s.Name == scName {
			sc = s
		}
	}
	w, blk, txs := c07Prepare(sc)
	defer w.Close()
	base, sites := c07MapRun(w, blk, txs, nil)
	dev := 1
	if thorough {
		dev = 2
	}
	jobs := c07Jobs(sites, dev)
	enc := json.NewEncoder(os.Stdout)
	repo := 0
	for _, s := range sites {
		if strings.Contains(s.Func, "goatnetwork/goat") {
			repo++
		}
	}
	_ = enc.Encode(c07WorkerLine{Job: -1, Digest: base.digest(), Sites: len(sites), Repo: repo, Jobs: len(jobs)})
	for j := idx; j < len(jobs); j += n {
		o, _ := c07MapRun(w, blk, txs, jobs[j].Choice)
		line := c07WorkerLine{Job: j, Site: jobs[j].Site, Digest: o.digest()}
		if o.digest() != base.digest() {
			line.Diff = base.diff(o)
		}
		_ = enc.Encode(line)
	}
	_ = enc.Encode(c07WorkerLine{End: true})
}

func runC07(r *mc.Run) {
	r.Rule = "for each scenario block (adversarial lock batches naming unknown validators/tokens, several validators leaving at once, relayer transactions that succeed and fail, downtime+evidence, hand-over, election) the same transactions are executed on: a base replica; a replica on which the proposal is processed in two rounds before it is finalised; a replica restarted after the proposal was accepted and before FinalizeBlock (as after a crash, replay or catch-up: the finalising process never saw the proposal; engine calls during FinalizeBlock are compared); a replica restarted (new App on the same DB) between FinalizeBlock and Commit; one restarted after Commit; the long-running process that executed the whole setup history itself; replicas with the wall clock shifted by +-400 days against the real clock and set to block time +10 s / +400 d / -400 d (incl. blocks carrying evidence that is old in blocks but young in time, and old in both); and, for every map iteration of the FinalizeBlock goroutine, every combination of starts at range sites inside goat packages and every single deviation at sites in dependencies (runtime hook, instrumented build); in addition every history of a depth-2 (thorough: 3) tree over a 21-block menu is executed block by block on fresh application instances and once more on one instance living through the whole history (twin histories); oracle = equal app hash, tx codes/codespaces/gas/data, validator-update set, engine call log, store dump and next-block app hash"
	r.Assumptions = []string{"torn writes inside the SDK's Commit are out of scope", "in dependencies one map deviation per execution is explored (thorough: also every pair of sites moved to their next start)"}
	scs := c07Scenarios(r.Thorough())
	self, err := os.Executable()
	must(err)
	ovlBin := filepath.Join(filepath.Dir(self), "verifmc-ovl")
	haveOvl := false
	if _, err := os.Stat(ovlBin); err == nil {
		haveOvl = true
	} else {
		r.Cap("instrumented binary bin/verifmc-ovl missing: map-order and clock deviations not explored")
	}
	var mu sync.Mutex
	mc.Parallel(len(scs), 4, func(i int) {
		sc := scs[i]
		w, blk, txs := c07Prepare(sc)
		defer w.Close()
		r.States.Add(1)
		run := func(mode string) c07Outcome {
			x, err := w.Fork()
			must(err)
			defer x.Close()
			r.Transitions.Add(1)
			r.Validated.Add(1)
			return c07Exec(x, blk, txs, mode)
		}
		base := run("plain")
		if base.Err != "" {
			r.Violate(mc.Violation{Class: "scenario-block-not-executable:" + sc.Name, Msg: base.Err, Detail: sc}, nil)
			return
		}
		okTx := 0
		for _, t := range base.Txs {
			if strings.HasPrefix(t, "code=0/") {
				okTx++
			}
		}
		r.Outcome(fmt.Sprintf("scenario:%s:%d-of-%d-txs-ok", sc.Name, okTx, len(base.Txs)))
		for _, mode := range []string{"plain", "second-proposal-round", "restart-between-process-and-finalize", "restart-before-commit", "restart-after-commit"} {
			o := run(mode)
			if d := base.diff(o); d != "" {
				r.Violate(mc.Violation{Class: "replica-diverges:" + mode, Msg: fmt.Sprintf("scenario %s: %s", sc.Name, d), Detail: map[string]any{"scenario": sc, "mode": mode}}, nil)
			}
		}
		// a long-running process: the node that executed the whole setup history itself (with
		// whatever process-local state that left behind) against the freshly constructed replicas
		{
			lw, lblk, ltxs := c07Prepare(sc)
			lw.N.EL.ClearRequests() // the simulated EL emitted the setup's requests once; World.Run only clears them on its next call
			r.Transitions.Add(1)
			r.Validated.Add(1)
			if fmt.Sprintf("%x", ltxs) != fmt.Sprintf("%x", txs) {
				r.Cap("scenario " + sc.Name + ": block not reproducible for the long-running replica")
			} else if d := base.diff(c07Exec(lw, lblk, ltxs, "plain")); d != "" {
				r.Violate(mc.Violation{Class: "replica-diverges:long-running-process-vs-restarted", Msg: fmt.Sprintf("scenario %s: %s", sc.Name, d), Detail: map[string]any{"scenario": sc, "mode": "long-running"}}, nil)
			}
			lw.Close()
		}
		mu.Lock()
		r.Sample(map[string]any{"scenario": sc.Name, "block": sc.Block.String(), "tx_results": base.Txs})
		mu.Unlock()
		if !haveOvl {
			return
		}
		// clock offsets: separate instrumented processes (the offset is process-global)
		for _, off := range c07Clocks {
			out, err := exec.Command(ovlBin, "c07clock", sc.Name, off).Output()
			r.Transitions.Add(1)
			r.Validated.Add(1)
			if err != nil {
				r.Cap("clock-offset worker failed: " + err.Error())
				continue
			}
			var o c07Outcome
			if json.Unmarshal(bytes.TrimSpace(out), &o) != nil {
				r.Cap("clock-offset worker output unreadable")
				continue
			}
			if d := base.diff(o); d != "" {
				r.Violate(mc.Violation{Class: "wall-clock-dependence", Msg: fmt.Sprintf("scenario %s, clock %s: %s", sc.Name, off, d), Detail: map[string]any{"scenario": sc, "clock": off}}, nil)
			}
			r.Outcome("clock-offset-replica")
		}
		// map-order deviations
		nw := 4
		var wg sync.WaitGroup
		for wi := 0; wi < nw; wi++ {
			wg.Add(1)
			go func(wi int) {
				defer wg.Done()
				th := "quick"
				if r.Thorough() {
					th = "thorough"
				}
				cmd := exec.Command(ovlBin, "c07worker", sc.Name, fmt.Sprint(wi), fmt.Sprint(nw), th)
				out, err := cmd.StdoutPipe()
				must(err)
				var stderr bytes.Buffer
				cmd.Stderr = &stderr
				must(cmd.Start())
				s := bufio.NewScanner(out)
				s.Buffer(make([]byte, 1<<20), 1<<24)
				ended := false
				for s.Scan() {
					var l c07WorkerLine
					if json.Unmarshal(s.Bytes(), &l) != nil {
						continue
					}
					switch {
					case l.End:
						ended = true
					case l.Job == -1:
						if wi == 0 {
							mu.Lock()
							r.Extra["map_sites:"+sc.Name] = map[string]int{"range_sites_with_2+_entries": l.Sites, "in_goat_packages": l.Repo, "deviation_executions": l.Jobs}
							mu.Unlock()
						}
					default:
						r.Transitions.Add(1)
						r.Validated.Add(1)
						r.Outcome("map-order-execution")
						if l.Diff != "" {
							r.Violate(mc.Violation{Class: "map-order-dependence:" + l.Site, Msg: fmt.Sprintf("scenario %s: iterating the map at %s from another start changes: %s", sc.Name, l.Site, l.Diff), Detail: map[string]any{"scenario": sc, "site": l.Site, "job": l.Job}}, nil)
						}
					}
				}
				_ = cmd.Wait()
				if !ended {
					r.Cap("map-order worker did not finish: " + strings.TrimSpace(stderr.String()))
				}
			}(wi)
		}
		wg.Wait()
	})
	c07Twins(r)
	// "regardless of goroutine scheduling": the free-running race pass (the same one C08 uses - blocks
	// prepared, checked and finalised under the race detector, every block also by two more
	// instances concurrently) reports anything two executions share outside their stores
	c08RacePass(r)
}

// c07ClockTable lists the wall clocks of the clock replicas: shifted against the real clock,
// and placed around the time of the block being executed (the simulated chain lives in 2023,
// so every time-based threshold of the modules - evidence age, unlock / jail / election
// periods - lies between "block+10s" and "block+400d" on one side and "block-400d" on the other).
var c07ClockTable = []struct {
	Name     string
	Secs     int64
	RelBlock bool
}{
	{"+400d", 400 * 86400, false},
	{"-400d", -400 * 86400, false},
	{"block+10s", 10, true},
	{"block+400d", 400 * 86400, true},
	{"block-400d", -400 * 86400, true},
	// a clock that is behind everything, the execution payload's own timestamp included: such a node
	// cannot check proposals (that rule reads the clock, legitimately), but it executes decided
	// blocks - block sync, replay after a crash - and must get what everybody else got
	{"unix-epoch:decided-block-replayed", 0, false},
}

var c07Clocks = func() (out []string) {
	for _, c := range c07ClockTable {
		out = append(out, c.Name)
	}
	return
}()

// C07Clock runs the scenario's block with a shifted wall clock and prints the outcome.
func C07Clock(scName, off string) {
	var sc c07Scenario
	for _, s := range c07Scenarios(true) {
		if s.Name == scName {
			sc = s
		}
	}
	w, blk, txs := c07Prepare(sc)
	defer w.Close()
	var sec int64
	for _, c := range c07ClockTable {
		if c.Name == off {
			sec = c.Secs
			if c.RelBlock {
				// the replica's clock reads (time of the block being executed) + Secs
				sec += int64(w.N.Time.Add(blk.TimeDelta).Sub(time.Now()) / time.Second)
			}
		}
	}
	mode := "plain"
	if strings.HasPrefix(off, "unix-epoch") {
		sec, mode = -time.Now().Unix(), "finalize-without-process"
	}
	ovl.SetNowOffset(sec)
	x, err := w.Fork()
	must(err)
	o := c07Exec(x, blk, txs, mode)
	ovl.SetNowOffset(0)
	bz, _ := json.Marshal(o)
	fmt.Println(string(bz))
}

func replayC07(detail json.RawMessage) (bool, string) {
	return false, "re-run bin/check C07 quick; the artefact names the scenario, the replica mode or the range site"
}

func init() { register(&Check{ID: "C07", Run: runC07, Replay: replayC07}) }
