package checks

import (
	"bytes"
	"encoding/json"
	"fmt"
	"math/big"
	"sort"
	"strings"
	"sync"
	"time"

	"github.com/btcsuite/btcd/btcutil"
	cmtproto "github.com/cometbft/cometbft/proto/tendermint/types"
	sdk "github.com/cosmos/cosmos-sdk/types"
	"github.com/ethereum/go-ethereum/core/types/goattypes"
	bitcointypes "github.com/goatnetwork/goat/x/bitcoin/types"
	relayertypes "github.com/goatnetwork/goat/x/relayer/types"
	"verifharness/mc"
	"verifharness/sim"
)

// C05 – withdrawals reach exactly one terminal outcome, paid within the user's terms.

type wOp struct {
	Kind string   `json:"kind"` // withdraw rbf cancel process replace finalize approve deliver
	IDs  []uint64 `json:"ids,omitempty"`
	Pid  uint64   `json:"pid,omitempty"`
	Arg  int64    `json:"arg,omitempty"` // price for rbf; candidate index for finalize (-1 = unknown txid)
	Var  string   `json:"variant,omitempty"`
}

func (o wOp) String() string {
	switch o.Kind {
	case "withdraw", "cancel", "process", "approve":
		return fmt.Sprintf("%s%v%s", o.Kind, o.IDs, o.Var)
	case "rbf", "rbf+cancel":
		return fmt.Sprintf("%s(%d,%d)", o.Kind, o.IDs[0], o.Arg)
	case "replace":
		return fmt.Sprintf("replace(p%d)%s", o.Pid, o.Var)
	case "finalize":
		return fmt.Sprintf("finalize(p%d,cand%d)%s", o.Pid, o.Arg, o.Var)
	}
	return o.Kind
}

// reference model
type wdModel struct {
	Status   string // none pending canceling processing paid canceled
	Amount   uint64
	MaxPrice uint64
	Script   []byte
	PaidAmt  uint64
}

type wCand struct {
	Tx     []byte
	Txid   []byte
	Values []uint64
}

type wBatch struct {
	IDs   []uint64
	Cands []wCand
	Fee   uint64
	Open  bool
}

type wNode struct {
	ctx                        sdk.Context
	wd                         map[uint64]wdModel
	batches                    map[uint64]*wBatch
	nextPid                    uint64
	paidNotices, refundNotices map[uint64]int // queued or delivered
	blockSeq                   uint64
}

func (n *wNode) clone() *wNode {
	c := &wNode{wd: map[uint64]wdModel{}, batches: map[uint64]*wBatch{}, nextPid: n.nextPid, paidNotices: map[uint64]int{}, refundNotices: map[uint64]int{}, blockSeq: n.blockSeq}
	for k, v := range n.wd {
		c.wd[k] = v
	}
	for k, v := range n.batches {
		b := *v
		b.Cands = append([]wCand{}, v.Cands...)
		c.batches[k] = &b
	}
	for k, v := range n.paidNotices {
		c.paidNotices[k] = v
	}
	for k, v := range n.refundNotices {
		c.refundNotices[k] = v
	}
	return c
}

type c05Inst struct {
	r          *mc.Run
	n          *sim.Node
	root       *wNode
	members    []sim.Member
	userAddr   map[uint64]string
	userScr    map[uint64][]byte
	relKey     sim.BtcKey
	illChecked *sync.Map
}

func newC05Inst(r *mc.Run, ill *sync.Map) (*c05Inst, error) {
	g := sim.DefaultCfg(1, 1)
	n, err := sim.NewChain(g)
	if err != nil {
		return nil, err
	}
	if res := n.RunBlock(&sim.Block{TimeDelta: time.Second}); res.Err != nil {
		return nil, res.Err
	}
	in := &c05Inst{r: r, n: n, members: append([]sim.Member{g.Proposer}, g.Voters...), userAddr: map[uint64]string{}, userScr: map[uint64][]byte{}, relKey: g.BtcKey, illChecked: ill}
	net := bitcointypes.BitcoinNetworks["regtest"]
	for id := uint64(1); id <= 2; id++ {
		h := btcutil.Hash160([]byte{byte(id), 'u'})
		a, err := btcutil.NewAddressWitnessPubKeyHash(h, net)
		must(err)
		in.userAddr[id] = a.EncodeAddress()
		in.userScr[id] = append([]byte{0, 20}, h...)
	}
	in.userAddr[3] = "not-a-bitcoin-address"
	hdr := cmtproto.Header{ChainID: g.ChainID, Height: n.Height + 1, Time: n.Time.Add(time.Second)}
	ctx, _ := n.App.NewUncachedContext(false, hdr).WithConsensusParams(*g.Consensus).CacheContext()
	in.root = &wNode{ctx: ctx, wd: map[uint64]wdModel{}, batches: map[uint64]*wBatch{}, paidNotices: map[uint64]int{}, refundNotices: map[uint64]int{}}
	return in, nil
}

func (in *c05Inst) Close()        { in.n.Close(); in.n.EL.Close() }
func (in *c05Inst) Root() mc.Node { return in.root }

func (in *c05Inst) Key(nd mc.Node) string {
	n := nd.(*wNode)
	d := in.n.DumpStores(n.ctx, "bitcoin")
	var sb strings.Builder
	sb.WriteString(d.Hash())
	ids := []uint64{}
	for id := range n.paidNotices {
		ids = append(ids, id)
	}
	for id := range n.refundNotices {
		ids = append(ids, id+100)
	}
	sort.Slice(ids, func(i, j int) bool { return ids[i] < ids[j] })
	fmt.Fprintf(&sb, "|%v", ids)
	return sb.String()
}

const (
	wdAmount      = 100000
	wdAmountLarge = 3_000_000_000
	wdPrice       = 10
)

func (in *c05Inst) Menu(nd mc.Node, depth int) []wOp {
	n := nd.(*wNode)
	var m []wOp
	for id := uint64(1); id <= 3; id++ {
		if n.wd[id].Status == "" {
			m = append(m, wOp{Kind: "withdraw", IDs: []uint64{id}})
			break // ids are issued in order by the bridge contract
		}
	}
	for id := uint64(1); id <= 2; id++ {
		if n.wd[id].Status == "" {
			continue
		}
		m = append(m, wOp{Kind: "rbf", IDs: []uint64{id}, Arg: 5}, wOp{Kind: "rbf", IDs: []uint64{id}, Arg: 20}, wOp{Kind: "cancel", IDs: []uint64{id}}, wOp{Kind: "rbf+cancel", IDs: []uint64{id}, Arg: 5},
			wOp{Kind: "process", IDs: []uint64{id}}, wOp{Kind: "approve", IDs: []uint64{id}})
	}
	if n.wd[1].Status != "" && n.wd[2].Status != "" {
		m = append(m, wOp{Kind: "process", IDs: []uint64{1, 2}}, wOp{Kind: "process", IDs: []uint64{1, 2}, Var: "+change"}, wOp{Kind: "approve", IDs: []uint64{1, 2}})
	}
	if n.wd[1].Status != "" {
		m = append(m, wOp{Kind: "process", IDs: []uint64{1, 1}}, wOp{Kind: "approve", IDs: []uint64{1, 1}})
	}
	if n.wd[1].Status != "" && n.wd[2].Status != "" {
		m = append(m, wOp{Kind: "approve", IDs: []uint64{1, 2, 1}})
	}
	pids := []uint64{}
	for pid := range n.batches {
		pids = append(pids, pid)
	}
	sort.Slice(pids, func(i, j int) bool { return pids[i] < pids[j] })
	for _, pid := range pids {
		b := n.batches[pid]
		m = append(m, wOp{Kind: "replace", Pid: pid})
		for ci := range b.Cands {
			m = append(m, wOp{Kind: "finalize", Pid: pid, Arg: int64(ci)})
		}
		m = append(m, wOp{Kind: "finalize", Pid: pid, Arg: -1})
	}
	m = append(m, wOp{Kind: "deliver"})
	return m
}

type c05Detail struct {
	Path []wOp  `json:"path"`
	Ill  string `json:"ill_formed_variant,omitempty"`
}

func wPath(p []wOp) []string {
	var out []string
	for _, o := range p {
		out = append(out, o.String())
	}
	return out
}

// ---- message builders

func (in *c05Inst) relayerState(ctx sdk.Context) (relayertypes.Relayer, uint64) {
	rel, err := in.n.App.RelayerKeeper.Relayer.Get(ctx)
	must(err)
	seq, err := in.n.App.RelayerKeeper.Sequence.Peek(ctx)
	must(err)
	return rel, seq
}

func (in *c05Inst) vote(ctx sdk.Context, method string, payload []byte, variant string) *relayertypes.Votes {
	rel, seq := in.relayerState(ctx)
	vc := sim.VoteCtx{Method: method, ChainID: in.n.Cfg.ChainID, Proposer: rel.Proposer, Sequence: seq, Epoch: rel.Epoch, Payload: payload}
	signers := in.members
	marks := []int{0}
	switch variant {
	case "vote:no-quorum":
		signers = in.members[:1]
		marks = nil
	case "vote:other-payload":
		vc.Payload = append(append([]byte{}, payload...), 9)
	case "vote:mark-beyond":
		signers = in.members[:1]
		marks = []int{1}
	}
	return &relayertypes.Votes{Sequence: seq, Epoch: rel.Epoch, Voters: sim.Bitmap(marks, 8), Signature: sim.AggregateVote(signers, vc)}
}

type outSpec struct {
	value  int64
	script []byte
}

// payTx builds the Bitcoin transaction paying the given ids; tag distinguishes candidates.
func (in *c05Inst) payTx(n *wNode, ids []uint64, tag uint32, variant string, change bool) ([]byte, []uint64) {
	var outs []sim.BtcOut
	var vals []uint64
	for i, id := range ids {
		w := n.wd[id]
		v := int64(w.Amount) - 300
		scr := in.userScr[id]
		if variant == "tx:other-script" && i == 0 {
			scr = in.userScr[3-id]
			if id > 2 {
				scr = in.userScr[1]
			}
		}
		if variant == "tx:amount-too-large" && i == 0 {
			v = int64(w.Amount) + 1
		}
		if variant == "tx:amount-2^64-1" && i == 0 {
			v = -1 // the 8 value bytes ff..ff: 2^64-1 satoshi, negative as a signed integer
		}
		if variant == "tx:amount-2^63" && i == 0 {
			v = -1 << 63
		}
		if scr == nil {
			scr = []byte{0, 20, 1, 2, 3, 4, 5, 6, 7, 8, 9, 10, 11, 12, 13, 14, 15, 16, 17, 18, 19, 20}
		}
		outs = append(outs, sim.BtcOut{Value: v, Script: scr})
		vals = append(vals, uint64(v))
	}
	if change || variant == "tx:two-extra-outputs" || variant == "tx:change-to-other-key" || variant == "tx:change-other-witness-version" || variant == "tx:change-to-deposit-script" {
		scr := sim.RefSystemScript(in.relKey)
		if variant == "tx:change-to-other-key" {
			scr = sim.RefSystemScript(sim.NewBtcKey("not-the-relayer", false))
		}
		if variant == "tx:change-other-witness-version" {
			// the right program of the current key under the other witness version (anyone-can-spend / unspendable)
			scr = append([]byte{}, scr...)
			if scr[0] == 0 {
				scr[0] = 0x51
			} else {
				scr[0] = 0
			}
		}
		if variant == "tx:change-to-deposit-script" {
			scr = sim.RefDepositScriptV0(in.relKey, make([]byte, 20))
		}
		outs = append(outs, sim.BtcOut{Value: 4242, Script: scr})
		if variant == "tx:two-extra-outputs" {
			outs = append(outs, sim.BtcOut{Value: 4243, Script: scr})
		}
	}
	return sim.BtcTx(tag, outs...), vals
}

func minPrice(n *wNode, ids []uint64) uint64 {
	m := ^uint64(0)
	for _, id := range ids {
		if p := n.wd[id].MaxPrice; p < m {
			m = p
		}
	}
	return m
}

func (in *c05Inst) processMsg(n *wNode, ids []uint64, variant string, change bool) (*bitcointypes.MsgProcessWithdrawal, wCand, uint64) {
	tx, vals := in.payTx(n, ids, uint32(7000+n.nextPid*16), variant, change)
	fee := minPrice(n, ids) * uint64(len(tx)) // exactly at the user's maximum rate
	if fee == 0 {
		fee = 1
	}
	if variant == "fee:above-max" {
		fee = minPrice(n, ids)*uint64(len(tx)) + 1
	}
	rel, _ := in.relayerState(n.ctx)
	m := &bitcointypes.MsgProcessWithdrawal{Proposer: rel.Proposer, Id: ids, NoWitnessTx: tx, TxFee: fee}
	if variant == "sender:other" {
		m.Proposer = in.members[1].AddrStr()
	}
	m.Vote = in.vote(n.ctx, m.MethodName(), m.VoteSigDoc(), variant)
	return m, wCand{Tx: tx, Txid: sim.DSHA(tx), Values: vals}, fee
}

func (in *c05Inst) replaceMsg(n *wNode, pid uint64, variant string) (*bitcointypes.MsgReplaceWithdrawal, wCand, uint64, bool) {
	b := n.batches[pid]
	tx, vals := in.payTx(n, b.IDs, uint32(7000+pid*16+uint64(len(b.Cands))), variant, false)
	fee := b.Fee + 1
	feasible := float64(fee)/float64(len(tx)) <= float64(minPrice(n, b.IDs))
	switch variant {
	case "fee:not-higher":
		fee = b.Fee
	case "fee:above-max":
		fee = minPrice(n, b.IDs)*uint64(len(tx)) + 1
		if fee <= b.Fee {
			fee = b.Fee + 1
		}
	case "tx:identical":
		tx = b.Cands[len(b.Cands)-1].Tx
	}
	rel, _ := in.relayerState(n.ctx)
	m := &bitcointypes.MsgReplaceWithdrawal{Proposer: rel.Proposer, Pid: pid, NewNoWitnessTx: tx, NewTxFee: fee}
	m.Vote = in.vote(n.ctx, m.MethodName(), m.VoteSigDoc(), variant)
	return m, wCand{Tx: tx, Txid: sim.DSHA(tx), Values: vals}, fee, feasible
}

// finalizeMsg builds a finalisation with an SPV proof in a freshly voted block.
func (in *c05Inst) finalizeMsg(ctx sdk.Context, n *wNode, pid uint64, cand int64, variant string) *bitcointypes.MsgFinalizeWithdrawal {
	b := n.batches[pid]
	var tx []byte
	if cand >= 0 && b != nil && int(cand) < len(b.Cands) {
		tx = b.Cands[cand].Tx
	} else {
		tx = sim.BtcTx(99999, sim.BtcOut{Value: 1, Script: in.userScr[1]})
	}
	height := uint64(5000 + pid*64 + uint64(cand+1)*4)
	txs := [][]byte{sim.CoinbaseTx(uint32(height), sim.BtcOut{Value: 50, Script: sim.RefSystemScript(in.relKey)}), tx, sim.BtcTx(31337, sim.BtcOut{Value: 5, Script: in.userScr[2]})}
	blk := sim.NewBtcBlock(height, sim.DSHA([]byte("fin-prev")), txs)
	if variant != "block:unvoted" {
		must(in.n.App.BitcoinKeeper.BlockHashes.Set(ctx, height, blk.Hash()))
	}
	rel, _ := in.relayerState(ctx)
	m := &bitcointypes.MsgFinalizeWithdrawal{Proposer: rel.Proposer, Pid: pid, Txid: sim.DSHA(tx), BlockNumber: height, TxIndex: 1, IntermediateProof: blk.Proof(1), BlockHeader: blk.Header}
	switch variant {
	case "proof:forged":
		p := append([]byte{}, m.IntermediateProof...)
		p[0] ^= 1
		m.IntermediateProof = p
	case "header:other":
		other := sim.NewBtcBlock(height, sim.DSHA([]byte("fin-other")), txs)
		m.BlockHeader = other.Header
	case "index:0":
		m.TxIndex = 0
	case "index:aliased":
		m.TxIndex = 1 + 4
	case "proof:for-other-tx":
		m.IntermediateProof = blk.Proof(2)
		m.TxIndex = 2
	case "sender:other":
		m.Proposer = in.members[1].AddrStr()
	}
	return m
}

// deliver runs msg on a throw-away transaction branch of ctx; commits on success when keep.
func (in *c05Inst) try(ctx sdk.Context, msg sdk.Msg, keep bool) error {
	tctx, write := ctx.CacheContext()
	_, err, _ := in.n.Deliver(tctx, msg)
	if err == nil && keep {
		write()
	}
	return err
}

func (in *c05Inst) Step(nd mc.Node, op wOp, path []wOp, silent bool) mc.Node {
	pre := nd.(*wNode)
	r := in.r
	k := in.n.App.BitcoinKeeper
	viol := func(class, msg string, ill string) {
		if silent {
			return
		}
		p := append([]wOp{}, path...)
		r.Violate(mc.Violation{Class: class, Msg: msg + " | history: " + fmt.Sprint(wPath(p)), Detail: c05Detail{Path: p, Ill: ill}}, nil)
	}
	outcome := func(o string) {
		if !silent {
			r.Outcome(o)
		}
	}
	next := pre.clone()
	bctx, _ := pre.ctx.CacheContext()
	next.ctx = bctx
	expectOK, gotErr := true, error(nil)

	switch op.Kind {
	case "withdraw":
		id := op.IDs[0]
		amount := uint64(wdAmount)
		if id == 2 {
			amount = wdAmountLarge // above 2^64 / 1e10 satoshi: its wei value does not fit 64 bits
		}
		gotErr = k.ProcessBridgeRequest(bctx, goattypes.BridgeRequests{Withdraws: []*goattypes.WithdrawalRequest{{Id: id, Amount: amount, TxPrice: wdPrice, Address: in.userAddr[id]}}})
		if id == 3 {
			next.wd[id] = wdModel{Status: "canceled", Amount: amount, MaxPrice: wdPrice}
			next.refundNotices[id]++
		} else {
			next.wd[id] = wdModel{Status: "pending", Amount: amount, MaxPrice: wdPrice, Script: in.userScr[id]}
		}
	case "rbf":
		id := op.IDs[0]
		gotErr = k.ProcessBridgeRequest(bctx, goattypes.BridgeRequests{ReplaceByFees: []*goattypes.ReplaceByFeeRequest{{Id: id, TxPrice: uint64(op.Arg)}}})
		if w := next.wd[id]; w.Status == "pending" || w.Status == "processing" {
			w.MaxPrice = uint64(op.Arg)
			next.wd[id] = w
		}
	case "rbf+cancel":
		// a fee update and a cancellation request for the same withdrawal in one execution block
		id := op.IDs[0]
		gotErr = k.ProcessBridgeRequest(bctx, goattypes.BridgeRequests{ReplaceByFees: []*goattypes.ReplaceByFeeRequest{{Id: id, TxPrice: uint64(op.Arg)}}, Cancel1s: []*goattypes.Cancel1Request{{Id: id}}})
		if w := next.wd[id]; w.Status == "pending" || w.Status == "processing" {
			w.MaxPrice = uint64(op.Arg)
			if w.Status == "pending" {
				w.Status = "canceling"
			}
			next.wd[id] = w
		}
	case "cancel":
		id := op.IDs[0]
		gotErr = k.ProcessBridgeRequest(bctx, goattypes.BridgeRequests{Cancel1s: []*goattypes.Cancel1Request{{Id: id}}})
		if w := next.wd[id]; w.Status == "pending" {
			w.Status = "canceling"
			next.wd[id] = w
		}
	case "process":
		seen := map[uint64]bool{}
		for _, id := range op.IDs {
			st := pre.wd[id].Status
			if seen[id] || (st != "pending" && st != "canceling") {
				expectOK = false
			}
			seen[id] = true
		}
		msg, cand, fee := in.processMsg(pre, op.IDs, "", op.Var == "+change")
		gotErr = in.try(bctx, msg, true)
		if expectOK {
			for i, id := range op.IDs {
				w := next.wd[id]
				w.Status = "processing"
				w.PaidAmt = cand.Values[i]
				next.wd[id] = w
			}
			next.batches[next.nextPid] = &wBatch{IDs: op.IDs, Cands: []wCand{cand}, Fee: fee, Open: true}
			next.nextPid++
		}
	case "replace":
		msg, cand, fee, feasible := in.replaceMsg(pre, op.Pid, "")
		b := pre.batches[op.Pid]
		if !b.Open {
			expectOK = false
		}
		for _, id := range b.IDs {
			if pre.wd[id].Status != "processing" {
				expectOK = false
			}
		}
		if !feasible {
			// the user's current maximum does not allow any higher fee: a strictly higher fee must be refused
			expectOK = false
		}
		gotErr = in.try(bctx, msg, true)
		if expectOK {
			nb := next.batches[op.Pid]
			nb.Cands = append(nb.Cands, cand)
			nb.Fee = fee
		}
	case "finalize":
		b := pre.batches[op.Pid]
		expectOK = op.Arg >= 0 && b.Open
		for _, id := range b.IDs {
			if pre.wd[id].Status != "processing" {
				expectOK = false
			}
		}
		msg := in.finalizeMsg(bctx, pre, op.Pid, op.Arg, "")
		gotErr = in.try(bctx, msg, true)
		if expectOK {
			for i, id := range b.IDs {
				w := next.wd[id]
				w.Status = "paid"
				w.PaidAmt = b.Cands[op.Arg].Values[i]
				next.wd[id] = w
				next.paidNotices[id]++
			}
			next.batches[op.Pid].Open = false
		}
	case "approve":
		listed := map[uint64]bool{}
		for _, id := range op.IDs {
			// an id listed twice would be refunded twice: such an approval must fail as a whole
			if pre.wd[id].Status != "canceling" || listed[id] {
				expectOK = false
			}
			listed[id] = true
		}
		rel, _ := in.relayerState(bctx)
		gotErr = in.try(bctx, &bitcointypes.MsgApproveCancellation{Proposer: rel.Proposer, Id: op.IDs}, true)
		if expectOK {
			for _, id := range op.IDs {
				w := next.wd[id]
				w.Status = "canceled"
				next.wd[id] = w
				next.refundNotices[id]++
			}
		}
	case "deliver":
		txs, err := k.DequeueBitcoinModuleTx(bctx)
		gotErr = err
		for _, st := range sim.DecodeSysTxs(txs) {
			switch t := st.Inner.(type) {
			case *goattypes.PaidTx:
				id := t.Id.Uint64()
				want := new(bigInt).SetUint64(pre.wd[id].PaidAmt)
				want.Mul(want, bigE10)
				if pre.wd[id].Status != "paid" || t.Amount.Cmp(want) != 0 {
					viol("paid-notice-wrong", fmt.Sprintf("paid notice for id %d amount %s, model status %s amount %d sat", id, t.Amount, pre.wd[id].Status, pre.wd[id].PaidAmt), "")
				}
				outcome("notice-paid")
			case *goattypes.Cancel2Tx:
				if pre.wd[t.Id.Uint64()].Status != "canceled" {
					viol("refund-notice-wrong", fmt.Sprintf("refund notice for id %d in model status %s", t.Id.Uint64(), pre.wd[t.Id.Uint64()].Status), "")
				}
				outcome("notice-refund")
			}
		}
	}
	if !silent {
		if gotErr == nil {
			outcome(op.Kind + ":ok")
		} else {
			outcome(op.Kind + ":rejected")
		}
	}
	if (gotErr == nil) != expectOK {
		viol("verdict:"+op.Kind, fmt.Sprintf("%s: implementation err=%v, reference expects success=%v (model %v)", op, gotErr, expectOK, pre.wd), "")
		return nil
	}
	if gotErr != nil {
		// failed transaction: model unchanged
		next = pre.clone()
		next.ctx = bctx
	}
	// ---- model vs store on every step
	for id := uint64(1); id <= 3; id++ {
		w, err := k.Withdrawals.Get(bctx, id)
		mdl := next.wd[id]
		if err != nil {
			if mdl.Status != "" {
				viol("withdrawal-missing", fmt.Sprintf("id %d missing, model %s", id, mdl.Status), "")
			}
			continue
		}
		got := map[bitcointypes.WithdrawalStatus]string{bitcointypes.WITHDRAWAL_STATUS_PENDING: "pending", bitcointypes.WITHDRAWAL_STATUS_CANCELING: "canceling",
			bitcointypes.WITHDRAWAL_STATUS_PROCESSING: "processing", bitcointypes.WITHDRAWAL_STATUS_PAID: "paid", bitcointypes.WITHDRAWAL_STATUS_CANCELED: "canceled"}[w.Status]
		if got != mdl.Status {
			viol("status-differs-from-life-cycle:"+pre.wd[id].Status+"->"+got, fmt.Sprintf("id %d: store %s, reference %s (before: %s)", id, got, mdl.Status, pre.wd[id].Status), "")
		}
		if w.MaxTxPrice != mdl.MaxPrice && mdl.Status != "" {
			viol("max-price-differs", fmt.Sprintf("id %d: %d vs %d", id, w.MaxTxPrice, mdl.MaxPrice), "")
		}
		if got == "paid" && (w.Receipt == nil || w.Receipt.Amount != mdl.PaidAmt) {
			viol("paid-amount-not-the-confirmed-output", fmt.Sprintf("id %d receipt %+v, confirmed candidate pays %d", id, w.Receipt, mdl.PaidAmt), "")
		}
	}
	// notices at most once per id, never both
	q, err := k.EthTxQueue.Get(bctx)
	must(err)
	for id := uint64(1); id <= 3; id++ {
		if next.paidNotices[id]+next.refundNotices[id] > 1 {
			viol("more-than-one-terminal-notice", fmt.Sprintf("id %d paid x%d refund x%d", id, next.paidNotices[id], next.refundNotices[id]), "")
		}
	}
	qc := map[uint64]int{}
	for _, p := range q.PaidWithdrawals {
		qc[p.Id]++
	}
	for _, id := range q.RejectedWithdrawals {
		qc[id]++
	}
	for id, c := range qc {
		if c > 1 || c > next.paidNotices[id]+next.refundNotices[id] {
			viol("queue-holds-unexpected-notice", fmt.Sprintf("id %d queued %d times, reference %d", id, c, next.paidNotices[id]+next.refundNotices[id]), "")
		}
	}
	if !silent {
		in.illFormed(next, path)
	}
	return next
}

type bigInt = big.Int

var bigE10 = big.NewInt(1e10)

// illFormed applies every ill-formed variant of every enabled relayer action on a
// throw-away branch of the state: each must fail and leave the bitcoin store unchanged.
func (in *c05Inst) illFormed(n *wNode, path []wOp) {
	key := in.Key(n)
	if _, dup := in.illChecked.LoadOrStore(key, true); dup {
		return
	}
	r := in.r
	before := in.n.DumpStores(n.ctx, "bitcoin", "relayer").Hash()
	check := func(name string, msg sdk.Msg, prep func(ctx sdk.Context)) {
		ctx, _ := n.ctx.CacheContext()
		if prep != nil {
			prep(ctx)
		}
		base := before
		if prep != nil {
			base = in.n.DumpStores(ctx, "bitcoin", "relayer").Hash()
		}
		err := in.try(ctx, msg, true)
		r.Transitions.Add(1)
		r.Validated.Add(1)
		if err == nil {
			p := append([]wOp{}, path...)
			r.Violate(mc.Violation{Class: "ill-formed-accepted:" + name, Msg: fmt.Sprintf("ill-formed %s accepted in state %v | history: %v", name, n.wd, wPath(p)), Detail: c05Detail{Path: p, Ill: name}}, nil)
			return
		}
		variant := name
		if i := strings.Index(name, "]:"); i >= 0 {
			variant = name[:strings.Index(name, "[")] + name[i+1:]
		}
		r.Reason(variant, err.Error())
		if after := in.n.DumpStores(ctx, "bitcoin", "relayer").Hash(); after != base {
			p := append([]wOp{}, path...)
			r.Violate(mc.Violation{Class: "state-changed-by-failed-action:" + name, Msg: "store dump changed", Detail: c05Detail{Path: p, Ill: name}}, nil)
		}
		r.Outcome("ill-formed-rejected")
	}
	// process variants on every processable id set
	var procSets [][]uint64
	for id := uint64(1); id <= 2; id++ {
		if st := n.wd[id].Status; st == "pending" || st == "canceling" {
			procSets = append(procSets, []uint64{id})
		}
	}
	if len(procSets) == 2 {
		procSets = append(procSets, []uint64{1, 2})
	}
	for _, ids := range procSets {
		for _, v := range []string{"tx:other-script", "tx:amount-too-large", "tx:amount-2^64-1", "tx:amount-2^63", "fee:above-max", "tx:two-extra-outputs", "tx:change-to-other-key", "tx:change-other-witness-version", "tx:change-to-deposit-script", "vote:no-quorum", "vote:other-payload", "vote:mark-beyond", "sender:other"} {
			msg, _, _ := in.processMsg(n, ids, v, false)
			check(fmt.Sprintf("process%v:%s", ids, v), msg, nil)
		}
	}
	for pid, b := range n.batches {
		open := true
		for _, id := range b.IDs {
			if n.wd[id].Status != "processing" {
				open = false
			}
		}
		if !open {
			continue
		}
		for _, v := range []string{"fee:not-higher", "fee:above-max", "tx:identical", "tx:other-script", "tx:amount-too-large", "tx:amount-2^64-1", "tx:amount-2^63", "tx:two-extra-outputs", "tx:change-to-other-key", "tx:change-other-witness-version", "tx:change-to-deposit-script", "vote:no-quorum", "vote:other-payload"} {
			msg, _, _, _ := in.replaceMsg(n, pid, v)
			check(fmt.Sprintf("replace:%s", v), msg, nil)
		}
		for _, v := range []string{"proof:forged", "block:unvoted", "header:other", "index:0", "index:aliased", "proof:for-other-tx", "sender:other"} {
			v := v
			pid := pid
			ctx, _ := n.ctx.CacheContext()
			msg := in.finalizeMsg(ctx, n, pid, 0, v)
			check("finalize:"+v, msg, func(c sdk.Context) { in.finalizeMsg(c, n, pid, 0, v) })
		}
	}
}

func runC05(r *mc.Run) {
	depth := 8
	if r.Thorough() {
		depth = 11
		r.SetBudget(10 * 60 * 1e9)
	} else {
		r.SetBudget(300 * 1e9)
	}
	r.Bounds["depth_actions"] = depth
	r.Rule = "DFS over interleavings of user requests (withdraw with good/undecodable address, fee update lower/higher, cancel, fee update + cancel in one block) and relayer actions (process [1],[2],[1,2],[1,1], +change; replace; finalize original/each replacement/unknown txid; approve [id],[1,2],[1,1],[1,2,1]; hand-over) over ids 1..3 with a 2-member quorum; every step compared with a reference life-cycle model; in every distinct state all ill-formed variants of the enabled actions (25 kinds: script, amount, fee rate, outputs, change key, quorum, payload, fee not higher, identical tx, forged/unvoted/other-header/aliased-index proofs, sender) are applied on throw-away branches and must fail without changing the store"
	r.Assumptions = []string{"withdrawal ids are unique and issued in order by the bridge contract", "voted block hashes for finalisation are injected into BlockHashes", "fee rates in the alphabet are exactly representable (float comparison in the code is exact below 2^40)"}
	ill := &sync.Map{}
	s := &mc.Search[wOp]{Run: r, Depth: depth, NewInstance: func() (mc.Instance[wOp], error) { return newC05Inst(r, ill) }}
	if err := s.Explore(); err != nil {
		panic(err)
	}
	r.Bounds["depth_completed"] = s.Completed
	r.Sample(map[string]any{"example_history": []string{"withdraw[1]", "process[1]", "rbf(1,20)", "replace(p0)", "finalize(p0,cand1)", "deliver"}})
}

func replayC05(detail json.RawMessage) (bool, string) {
	var d c05Detail
	if err := json.Unmarshal(detail, &d); err != nil {
		return false, err.Error()
	}
	r := mc.NewRun("replay", "quick")
	r.IgnoreKnown()
	if err := mc.ReplayPath(func() (mc.Instance[wOp], error) { return newC05Inst(r, &sync.Map{}) }, d.Path); err != nil {
		return false, err.Error()
	}
	vs := r.ViolationList()
	if len(vs) == 0 {
		return false, "no violation on replay"
	}
	return true, vs[0].Class + ": " + vs[0].Msg
}

var _ = bytes.Equal

func init() { register(&Check{ID: "C05", Run: runC05, Replay: replayC05}) }
