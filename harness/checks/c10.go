package checks

import (
	"bytes"
	"encoding/json"
	"fmt"
	"reflect"
	"runtime"
	"strings"
	"sync"
	"time"

	abci "github.com/cometbft/cometbft/abci/types"
	sdk "github.com/cosmos/cosmos-sdk/types"
	goatmodtypes "github.com/goatnetwork/goat/x/goat/types"
	"verifharness/enga"
	"verifharness/mc"
	"verifharness/sim"
)

// C10 – only relayer-proposer bridge/relayer messages and the block message can run.

type c10Case struct {
	Msgs      []string `json:"msg_types"`
	Signer    string   `json:"signer_class"`
	Signer2   string   `json:"second_signer_class,omitempty"`
	FeePayer  string   `json:"fee_payer_class,omitempty"` // a second account that pays the fee and co-signs
	Memo      string   `json:"memo"`
	Timeout   string   `json:"timeout"` // 0 h-1 h h+1
	Sig       string   `json:"signature"`
	Mode      string   `json:"mode"`
	Elected   bool     `json:"after_election"`
	Removed   bool     `json:"after_proposer_removal,omitempty"` // the proposer was removed from the group; its first voter stepped in
	Shared    bool     `json:"validator_account_is_relayer_proposer,omitempty"` // one key for both roles
	WantAdmit bool     `json:"reference_admits"`
	reason    string   // why the implementation refused it (its own log text)
}

// c10Why names the single rule a case is meant to break (only for cases that differ from an
// admissible one in exactly one respect), so that the evidence can show what actually refused it.
func c10Why(c *c10Case) string {
	var broken []string
	if c.Signer2 != "" {
		broken = append(broken, "second-message-signer")
	}
	if c.FeePayer != "" {
		broken = append(broken, "separate-fee-payer")
	}
	if c.Memo != "" {
		broken = append(broken, "memo")
	}
	if c.Sig != "valid" {
		broken = append(broken, "signature:"+c.Sig)
	}
	if c.Signer == "account-less" {
		broken = append(broken, "account-less-signer")
	}
	if c.Timeout == "h-2" || (c.Timeout == "h-1" && c.Mode != "check") {
		broken = append(broken, "expired-timeout")
	}
	if len(broken) != 1 || len(c.Msgs) != 1 {
		return ""
	}
	u := c.Msgs[0]
	ok := (u == ethBlockURL && c.Signer == "consensus-proposer" && c.Timeout == "h" && (c.Mode == "process" || c.Mode == "finalize")) || (isRelayerNS(u) && c.Signer == "relayer-proposer")
	if !ok {
		return ""
	}
	return c.Mode + ":" + broken[0]
}

const ethBlockURL = "/goat.goat.v1.MsgNewEthBlock"

func c10Signer(w *enga.World, class string) (sim.Key, bool) {
	rel, _ := w.Relayer()
	switch class {
	case "relayer-proposer":
		for _, m := range w.Members {
			if m.AddrStr() == rel.Proposer {
				return m.Key, true
			}
		}
	case "other-relayer-member":
		for _, m := range w.Members {
			if m.AddrStr() != rel.Proposer {
				return m.Key, true
			}
		}
	case "removed-ex-proposer":
		// a former member: neither the proposer nor a voter any more (its account and key still exist)
		in := map[string]bool{rel.Proposer: true}
		for _, v := range rel.Voters {
			in[v] = true
		}
		for _, m := range w.Members {
			if !in[m.AddrStr()] {
				return m.Key, true
			}
		}
	case "consensus-proposer":
		return w.N.Cfg.Vals[w.N.Cfg.NodeVal].Key, true
	case "other-validator":
		return w.N.Cfg.Vals[1].Key, true
	case "account-less":
		return sim.NewKey("nobody"), false
	}
	panic(class)
}

// c10Msg builds an instance of the registered message type whose signer field names addr.
func c10Msg(w *enga.World, typeURL string, addr string) sdk.Msg {
	if typeURL == ethBlockURL {
		_, payload, err := w.N.BuildEthBlockTx(sim.EthBlockOpts{})
		must(err)
		p := *payload
		if bz, err := w.N.App.AccountKeeper.AddressCodec().StringToBytes(addr); err == nil {
			p.FeeRecipient = bz
		}
		return &goatmodtypes.MsgNewEthBlock{Proposer: addr, Payload: &p}
	}
	m, err := w.N.App.AppCodec().InterfaceRegistry().Resolve(typeURL)
	must(err)
	v := reflect.ValueOf(m).Elem()
	set := false
	for _, f := range []string{"Proposer", "Authority"} {
		if fv := v.FieldByName(f); fv.IsValid() && fv.Kind() == reflect.String {
			fv.SetString(addr)
			set = true
		}
	}
	if !set {
		panic("no signer field in " + typeURL)
	}
	// make the goat messages minimally well-shaped where cheap (ante does not look at them)
	if fv := v.FieldByName("Id"); fv.IsValid() && fv.Kind() == reflect.Slice {
		fv.Set(reflect.ValueOf([]uint64{999}))
	}
	return m.(sdk.Msg)
}

func isRelayerNS(u string) bool {
	return strings.HasPrefix(u, "/goat.bitcoin.") || strings.HasPrefix(u, "/goat.relayer.")
}

// c10Ref is the admission predicate written from the property statement.
func c10Ref(c *c10Case) bool {
	if c.Signer2 != "" || c.FeePayer != "" || c.Memo != "" || c.Sig != "valid" || c.Signer == "account-less" {
		return false // more than one signer (a second message signer or a separate fee payer), memo, bad signature
	}
	// CheckTx runs against the last committed height h-1: a timeout of h-1 has not expired there yet
	if c.Timeout == "h-2" || (c.Timeout == "h-1" && c.Mode != "check") {
		return false
	}
	inBlock := c.Mode == "process" || c.Mode == "finalize"
	for _, u := range c.Msgs {
		switch {
		case u == ethBlockURL:
			if !inBlock || c.Timeout != "h" {
				return false
			}
			// ProcessProposal additionally applies the proposal rules: alone in its transaction and
			// authored by the block's proposer. (In FinalizeBlock the observable is ante admission.)
			if c.Mode == "process" && (len(c.Msgs) != 1 || c.Signer != "consensus-proposer") {
				return false
			}
		case isRelayerNS(u):
			if c.Signer != "relayer-proposer" {
				return false
			}
		default:
			return false
		}
	}
	return true
}

func c10Build(w *enga.World, c *c10Case) ([]byte, sim.Key) {
	key, hasAcc := c10Signer(w, c.Signer)
	hasEth := false
	for _, u := range c.Msgs {
		if u == ethBlockURL {
			hasEth = true
		}
	}
	var msgs []sdk.Msg
	for i, u := range c.Msgs {
		addr := key.AddrStr()
		if c.Signer2 != "" && i == 1 {
			k2, _ := c10Signer(w, c.Signer2)
			addr = k2.AddrStr()
		}
		msgs = append(msgs, c10Msg(w, u, addr))
	}
	h := uint64(w.N.Height + 1)
	th := map[string]uint64{"0": 0, "h-2": h - 2, "h-1": h - 1, "h": h, "h+1": h + 1}[c.Timeout]
	var num, seq uint64
	if hasAcc {
		num, seq, _ = w.N.Account(w.N.Ctx(), key.Addr())
	}
	if (c.Signer == "consensus-proposer" || (c.Shared && c.Signer == "relayer-proposer")) && !hasEth && (c.Mode == "process" || c.Mode == "finalize") {
		seq++ // the block message of the same signer comes first in the block
	}
	signKey := key
	switch c.Sig {
	case "wrong-key":
		signKey = sim.NewKey("forger")
		signKey = sim.Key{Name: "forger", Priv: signKey.Priv}
	case "wrong-sequence":
		seq++
	}
	if c.Signer2 != "" || c.FeePayer != "" {
		// every signer really signs: the transaction is refused for having two signers, not for a
		// missing signature
		keys, nums, seqs := []sim.Key{key}, []uint64{num}, []uint64{seq}
		var payer sdk.AccAddress
		for _, cls := range []string{c.Signer2, c.FeePayer} {
			if cls == "" {
				continue
			}
			k2, _ := c10Signer(w, cls)
			n2, s2, _ := w.N.Account(w.N.Ctx(), k2.Addr())
			if cls == "consensus-proposer" && !hasEth && (c.Mode == "process" || c.Mode == "finalize") {
				s2++
			}
			keys, nums, seqs = append(keys, k2), append(nums, n2), append(seqs, s2)
			if cls == c.FeePayer && c.FeePayer != "" {
				payer = k2.Addr()
			}
		}
		tx, err := sim.SignTxMulti(w.N.TxCfg, w.N.Cfg.ChainID, keys, nums, seqs, payer, th, c.Memo, msgs...)
		must(err)
		return tx, key
	}
	tx, err := sim.SignTxAs(w.N.TxCfg, w.N.Cfg.ChainID, key, signKey, num, seq, th, c.Memo, msgs...)
	must(err)
	return tx, key
}

// c10Eval delivers the case in its mode and reports whether the transaction was admitted and
// whether a foreign message changed any state.
func c10Eval(w *enga.World, c *c10Case) (admitted bool, foreignEffect string) {
	tx, key := c10Build(w, c)
	hasEth := false
	for _, u := range c.Msgs {
		if u == ethBlockURL {
			hasEth = true
		}
	}
	blk := &sim.Block{TimeDelta: time.Second}
	switch c.Mode {
	case "check":
		res, err := w.N.CheckTx(tx)
		if err == nil {
			c.reason = res.Log
		}
		return err == nil && res.Code == 0, ""
	case "prepare":
		must(w.N.InsertMempool(tx))
		blk.MempoolTxs = [][]byte{tx}
		pp, err := w.N.Prepare(blk)
		if err != nil {
			return false, ""
		}
		for i, t := range pp.Txs {
			if i > 0 && bytes.Equal(t, tx) { // index 0 is the proposer's own block message
				return true, ""
			}
		}
		return false, ""
	case "process":
		txs := [][]byte{tx}
		if !hasEth {
			eth, _, err := w.N.BuildEthBlockTx(sim.EthBlockOpts{})
			must(err)
			txs = [][]byte{eth, tx}
		}
		pr, err := w.N.Process(blk, txs)
		c.reason = w.N.LoggedErrors()
		return err == nil && pr.Status == abci.ResponseProcessProposal_ACCEPT, ""
	case "finalize":
		txs := [][]byte{tx}
		idx := 0
		if !hasEth {
			eth, _, err := w.N.BuildEthBlockTx(sim.EthBlockOpts{})
			must(err)
			txs = [][]byte{eth, tx}
			idx = 1
		}
		_, seqBefore, had := w.N.Account(w.N.Ctx(), key.Addr())
		ref, err := w.Fork()
		must(err)
		defer ref.Close()
		fr, err := w.N.Finalize(blk, txs)
		if err != nil {
			return false, ""
		}
		must(w.N.Commit(blk, txs, fr))
		c.reason = fr.TxResults[len(fr.TxResults)-1].Log
		_, seqAfter, _ := w.N.Account(w.N.Ctx(), key.Addr())
		want := seqBefore + 1
		if (c.Signer == "consensus-proposer" || (c.Shared && c.Signer == "relayer-proposer")) && !hasEth {
			want++ // its block message was executed first
		}
		// admitted by the ante chain <=> the signer's sequence was consumed (also when a message fails later)
		admitted = had && seqAfter == want
		_ = idx
		// foreign messages: the state must equal the same block without the transaction
		foreign := false
		for _, u := range c.Msgs {
			if !isRelayerNS(u) && u != ethBlockURL {
				foreign = true
			}
		}
		if foreign {
			rtx := [][]byte{txs[0]}
			if hasEth {
				rtx = [][]byte{}
			}
			if idx == 1 {
				rfr, err := ref.N.Finalize(blk, rtx)
				must(err)
				must(ref.N.Commit(blk, rtx, rfr))
				var eff []string
				for _, d := range w.N.DumpStores(w.N.Ctx()).Diff(ref.N.DumpStores(ref.N.Ctx())) {
					if d == "goat/02: changed" {
						continue // the beacon root is the block hash, which covers the transaction list
					}
					eff = append(eff, d)
				}
				if len(eff) > 0 {
					return admitted, fmt.Sprint(eff)
				}
			}
		}
		return admitted, ""
	}
	panic(c.Mode)
}

func runC10(r *mc.Run) {
	r.Rule = "every sdk.Msg implementation registered in the application's interface registry (discovered at run time) x signer class (relayer proposer, other relayer member, consensus proposer, other validator, account-less key) x memo x timeout height {0,h-2,h-1,h,h+1} x signature {valid, wrong key, wrong sequence} x mode {CheckTx, prepare via mempool, ProcessProposal, FinalizeBlock}, before and after a relayer election, and after the proposer itself was removed from the group (its first voter stepping in without an election; signer classes then include the removed ex-proposer), and on a chain whose validator account is also the relayer proposer (relayer messages x signature classes x modes); compositions (allowed+allowed, allowed+foreign, block-message+allowed, allowed+block-message, two message signers that both sign, a separate fee payer that co-signs - also for the block message alone and for two block messages of two accounts); ReCheck after an election and after the timeout height has passed (control: one block earlier it is still admitted); oracle = admission predicate from the statement; foreign messages must leave every store equal to the same block without them"
	r.Assumptions = []string{"CheckTx is exercised on an application that has committed a block (a freshly restarted App checks at height 0 until its first commit: SDK behaviour)", "ReCheck only concerns transactions previously admitted by CheckTx"}
	base, err := enga.NewWorld(c08Cfg())
	if err != nil {
		panic(err)
	}
	defer base.Close()
	elected, err := base.Fork()
	must(err)
	defer elected.Close()
	if rr := elected.Run(enga.ABlock{Dt: 7}); rr.Err != nil {
		panic(rr.Err)
	}
	rel0, _ := base.Relayer()
	rel1, _ := elected.Relayer()
	if rel0.Proposer == rel1.Proposer {
		r.Cap("the election did not change the relayer proposer; previous-proposer class not exercised")
	}
	urls := base.N.App.AppCodec().InterfaceRegistry().ListImplementations(sdk.MsgInterfaceProtoName)
	r.Bounds["registered_msg_types"] = len(urls)
	signers := []string{"relayer-proposer", "other-relayer-member", "consensus-proposer", "other-validator", "account-less"}
	modes := []string{"check", "prepare", "process", "finalize"}
	var cases []*c10Case
	type phase struct{ el, removed bool }
	for _, ph := range []phase{{false, false}, {true, false}, {true, true}} {
		el := ph.el
		first := len(cases)
		signers := signers
		if ph.removed {
			signers = append(append([]string{}, signers...), "removed-ex-proposer")
		}
		for _, u := range urls {
			for _, s := range signers {
				for _, memo := range []string{"", "m"} {
					for _, th := range []string{"0", "h-2", "h-1", "h", "h+1"} {
						for _, sg := range []string{"valid", "wrong-key", "wrong-sequence"} {
							if !r.Thorough() && el && (memo != "" || sg != "valid") {
								continue // after the election: identity classes only (quick tier)
							}
							for _, md := range modes {
								cases = append(cases, &c10Case{Msgs: []string{u}, Signer: s, Memo: memo, Timeout: th, Sig: sg, Mode: md, Elected: el})
							}
						}
					}
				}
			}
		}
		// compositions
		allowed, allowed2, foreign := "/goat.bitcoin.v1.MsgApproveCancellation", "/goat.relayer.v1.MsgAcceptProposerRequest", "/cosmos.auth.v1beta1.MsgUpdateParams"
		for _, md := range modes {
			for _, th := range []string{"0", "h"} {
				for _, s := range []string{"relayer-proposer", "consensus-proposer"} {
					cases = append(cases,
						&c10Case{Msgs: []string{allowed, allowed2}, Signer: s, Timeout: th, Sig: "valid", Mode: md, Elected: el},
						&c10Case{Msgs: []string{allowed, foreign}, Signer: s, Timeout: th, Sig: "valid", Mode: md, Elected: el},
						&c10Case{Msgs: []string{foreign, allowed}, Signer: s, Timeout: th, Sig: "valid", Mode: md, Elected: el},
						&c10Case{Msgs: []string{ethBlockURL, allowed}, Signer: s, Timeout: th, Sig: "valid", Mode: md, Elected: el},
						&c10Case{Msgs: []string{allowed, ethBlockURL}, Signer: s, Timeout: th, Sig: "valid", Mode: md, Elected: el},
						&c10Case{Msgs: []string{ethBlockURL, foreign}, Signer: s, Timeout: th, Sig: "valid", Mode: md, Elected: el},
						&c10Case{Msgs: []string{ethBlockURL, "/cosmos.consensus.v1.MsgUpdateParams"}, Signer: s, Timeout: th, Sig: "valid", Mode: md, Elected: el},
						&c10Case{Msgs: []string{ethBlockURL, ethBlockURL}, Signer: s, Timeout: th, Sig: "valid", Mode: md, Elected: el},
						&c10Case{Msgs: []string{allowed, allowed2}, Signer: "relayer-proposer", Signer2: "other-relayer-member", Timeout: th, Sig: "valid", Mode: md, Elected: el},
						&c10Case{Msgs: []string{allowed}, Signer: "relayer-proposer", FeePayer: "other-relayer-member", Timeout: th, Sig: "valid", Mode: md, Elected: el},
						&c10Case{Msgs: []string{allowed}, Signer: "relayer-proposer", FeePayer: "consensus-proposer", Timeout: th, Sig: "valid", Mode: md, Elected: el},
						&c10Case{Msgs: []string{ethBlockURL}, Signer: "consensus-proposer", FeePayer: "other-validator", Timeout: th, Sig: "valid", Mode: md, Elected: el},
						&c10Case{Msgs: []string{ethBlockURL}, Signer: "consensus-proposer", FeePayer: "relayer-proposer", Timeout: th, Sig: "valid", Mode: md, Elected: el},
						&c10Case{Msgs: []string{ethBlockURL, ethBlockURL}, Signer: "consensus-proposer", Signer2: "other-validator", Timeout: th, Sig: "valid", Mode: md, Elected: el},
						&c10Case{Msgs: []string{ethBlockURL, ethBlockURL}, Signer: "consensus-proposer", Signer2: "relayer-proposer", Timeout: th, Sig: "valid", Mode: md, Elected: el},
					)
				}
			}
		}
		if ph.removed {
			for _, c := range cases[first:] {
				c.Removed = true
			}
		}
	}
	// fourth state: the validator's account is also the relayer proposer (one key for both roles).
	// In a block its transactions follow its own block message, so they carry the next sequence
	// number; nothing else changes: signature and sequence of every transaction are checked.
	for _, u := range urls {
		if !isRelayerNS(u) {
			continue
		}
		for _, sg := range []string{"valid", "wrong-key", "wrong-sequence"} {
			for _, md := range modes {
				for _, s := range []string{"relayer-proposer", "other-relayer-member"} {
					cases = append(cases, &c10Case{Msgs: []string{u}, Signer: s, Timeout: "0", Sig: sg, Mode: md, Shared: true})
				}
			}
		}
	}
	for _, c := range cases {
		c.WantAdmit = c10Ref(c)
	}
	r.States.Store(int64(len(cases)))
	var mu sync.Mutex
	pools := map[[3]bool][]*enga.World{}
	get := func(el, removed bool, sh ...bool) *enga.World {
		shared := len(sh) > 0 && sh[0]
		k := [3]bool{el, removed, shared}
		mu.Lock()
		if l := pools[k]; len(l) > 0 {
			w := l[len(l)-1]
			pools[k] = l[:len(l)-1]
			mu.Unlock()
			return w
		}
		mu.Unlock()
		// a warmed world: own App that has committed blocks (not a fork), so CheckTx runs at a real height
		w, err := enga.NewWorld(c10Cfg(shared))
		must(err)
		c10Prepare(w, el, removed)
		return w
	}
	put := func(el, removed bool, w *enga.World, sh ...bool) {
		k := [3]bool{el, removed, len(sh) > 0 && sh[0]}
		mu.Lock()
		pools[k] = append(pools[k], w)
		mu.Unlock()
	}
	{
		// the third state is what it claims to be: the genesis proposer is out of the group and the
		// seat went to somebody else without an election
		w := get(true, true)
		rel2, _ := w.Relayer()
		gone := rel2.Proposer != rel0.Proposer
		for _, v := range rel2.Voters {
			gone = gone && v != rel0.Proposer
		}
		if !gone {
			r.Cap("the proposer's removal did not take effect; removed-proposer state not exercised")
		}
		r.Bounds["proposer_after_removal_differs"] = gone
		put(true, true, w)
	}
	mc.Parallel(len(cases), runtime.NumCPU()*2, func(i int) {
		c := cases[i]
		w := get(c.Elected, c.Removed, c.Shared)
		reusable := c.Mode == "process"
		admitted, eff := c10Eval(w, c)
		r.Transitions.Add(1)
		r.Validated.Add(1)
		if why := c10Why(c); why != "" && !admitted && c.reason != "" {
			r.Reason(why, c.reason)
		}
		if c.Mode == "check" && !admitted {
			reusable = true
		}
		if c.Mode == "prepare" {
			// drop whatever is left in the mempool
			tx, _ := c10Build(w, c)
			if dtx, err := w.N.TxCfg.TxDecoder()(tx); err == nil {
				_ = w.N.App.Mempool().Remove(dtx)
			}
			reusable = w.N.App.Mempool().CountTx() == 0
		}
		if reusable {
			put(c.Elected, c.Removed, w, c.Shared)
		} else {
			w.Close()
		}
		if admitted {
			r.Outcome("admitted:" + c.Mode)
		} else {
			r.Outcome("refused:" + c.Mode)
		}
		if i%1777 == 0 {
			r.Sample(c)
		}
		if eff != "" {
			r.Violate(mc.Violation{Class: "foreign-message-changed-state:" + strings.Join(c.Msgs, "+"), Msg: fmt.Sprintf("%s | case %+v", eff, *c), Detail: c}, nil)
		}
		if c.Shared && c.Mode == "prepare" && !admitted {
			// a proposer leaves its own account's pending transactions out of the block it builds (they
			// would collide with its block message's sequence number): "only if", not "if"
			return
		}
		if admitted != c.WantAdmit {
			cls := "admitted-against-the-rules"
			if !admitted {
				cls = "admissible-transaction-refused"
			}
			r.Violate(mc.Violation{Class: fmt.Sprintf("%s:%s:%s", cls, c.Mode, shortMsgs(c.Msgs)), Msg: fmt.Sprintf("admitted=%v reference=%v | case %+v", admitted, c.WantAdmit, *c), Detail: c}, nil)
		}
	})
	for _, l := range pools {
		for _, w := range l {
			w.Close()
		}
	}
	c10Recheck(r)
}

func shortMsgs(us []string) string {
	var out []string
	for _, u := range us {
		out = append(out, u[strings.LastIndex(u, ".")+1:])
	}
	return strings.Join(out, "+")
}

// c10Recheck: a transaction admitted by CheckTx is re-checked after a block; it stays
// admitted while its signer is the relayer proposer and is evicted after an election.
func c10Recheck(r *mc.Run) {
	// a transaction admitted while its timeout height was still ahead is re-checked after the
	// chain has passed that height (and, as a control, one whose timeout is still ahead)
	for _, late := range []bool{true, false} {
		w, err := enga.NewWorld(c08Cfg())
		must(err)
		c := &c10Case{Msgs: []string{"/goat.bitcoin.v1.MsgApproveCancellation"}, Signer: "relayer-proposer", Timeout: "h", Sig: "valid", Mode: "check"}
		tx, _ := c10Build(w, c) // timeout = the height of the next block
		res, err := w.N.CheckTx(tx)
		if err != nil || res.Code != 0 {
			r.Violate(mc.Violation{Class: "admissible-transaction-refused:check", Msg: fmt.Sprintf("%v %v", err, res), Detail: c}, nil)
			w.Close()
			continue
		}
		blocks := 1 // committed height == timeout height: still admissible
		if late {
			blocks = 2 // committed height == timeout height + 1: expired
		}
		for i := 0; i < blocks; i++ {
			eth, _, err := w.N.BuildEthBlockTx(sim.EthBlockOpts{})
			must(err)
			if rr := w.N.RunBlock(&sim.Block{TimeDelta: time.Second, Txs: [][]byte{eth}}); rr.Err != nil {
				panic(rr.Err)
			}
		}
		rc, err := w.N.App.CheckTx(&abci.RequestCheckTx{Tx: tx, Type: abci.CheckTxType_Recheck})
		r.Transitions.Add(1)
		r.Validated.Add(1)
		ok := err == nil && rc.Code == 0
		if ok == late {
			r.Violate(mc.Violation{Class: fmt.Sprintf("recheck-verdict:timeout-passed=%v", late), Msg: fmt.Sprintf("ReCheck admitted=%v although the timeout height has passed=%v (%s)", ok, late, rc.GetLog()), Detail: c10Case{Mode: "recheck", Timeout: "h"}}, nil)
		}
		r.Outcome(fmt.Sprintf("recheck-after-timeout-passed=%v-admitted=%v", late, ok))
		w.Close()
	}
	for _, elect := range []bool{false, true} {
		w, err := enga.NewWorld(c08Cfg())
		must(err)
		c := &c10Case{Msgs: []string{"/goat.bitcoin.v1.MsgApproveCancellation"}, Signer: "relayer-proposer", Timeout: "0", Sig: "valid", Mode: "check"}
		tx, _ := c10Build(w, c)
		res, err := w.N.CheckTx(tx)
		if err != nil || res.Code != 0 {
			r.Violate(mc.Violation{Class: "admissible-transaction-refused:check", Msg: fmt.Sprintf("%v %v", err, res), Detail: c}, nil)
			w.Close()
			continue
		}
		// a block that does not include it (harness-assembled), with or without an election
		dt := int64(1)
		if elect {
			dt = 7
		}
		eth, _, err := w.N.BuildEthBlockTx(sim.EthBlockOpts{})
		must(err)
		rr := w.N.RunBlock(&sim.Block{TimeDelta: time.Duration(dt) * time.Second, Txs: [][]byte{eth}})
		if rr.Err != nil {
			panic(rr.Err)
		}
		rc, err := w.N.App.CheckTx(&abci.RequestCheckTx{Tx: tx, Type: abci.CheckTxType_Recheck})
		r.Transitions.Add(1)
		r.Validated.Add(1)
		ok := err == nil && rc.Code == 0
		if ok == elect {
			r.Violate(mc.Violation{Class: fmt.Sprintf("recheck-verdict:after-election=%v", elect), Msg: fmt.Sprintf("ReCheck admitted=%v", ok), Detail: c10Case{Mode: "recheck", Elected: elect}}, nil)
		}
		r.Outcome(fmt.Sprintf("recheck-admitted=%v", ok))
		w.Close()
	}
}

// c10Prepare brings a fresh world into the state a case is delivered in.
// c10Cfg is the genesis of a C10 state.
func c10Cfg(shared bool) *sim.GenesisCfg {
	g := c08Cfg()
	if shared {
		g.Proposer = sim.Member{Key: g.Vals[g.NodeVal].Key, BLS: sim.NewBLSKey("relayer-0")}
	}
	return g
}

func c10Prepare(w *enga.World, elected, removed bool) {
	w.Run(enga.ABlock{}) // height 2, so that h-2 is a real (expired) timeout height
	switch {
	case removed:
		for _, b := range []enga.ABlock{{Events: []enga.Event{{Kind: "req:removevoter", Var: "proposer"}}}, {Dt: 7}} {
			if rr := w.Run(b); rr.Err != nil {
				panic(rr.Err)
			}
		}
	case elected:
		if rr := w.Run(enga.ABlock{Dt: 7}); rr.Err != nil {
			panic(rr.Err)
		}
	}
}

func replayC10(detail json.RawMessage) (bool, string) {
	var c c10Case
	if err := json.Unmarshal(detail, &c); err != nil || len(c.Msgs) == 0 {
		return false, "re-run bin/check C10 quick"
	}
	w, err := enga.NewWorld(c10Cfg(c.Shared))
	if err != nil {
		return false, err.Error()
	}
	defer w.Close()
	c10Prepare(w, c.Elected, c.Removed)
	adm, eff := c10Eval(w, &c)
	return adm != c10Ref(&c) || eff != "", fmt.Sprintf("admitted=%v reference=%v effect=%s", adm, c10Ref(&c), eff)
}

func init() { register(&Check{ID: "C10", Run: runC10, Replay: replayC10}) }
