package checks

import (
	"bytes"
	"encoding/json"
	"fmt"
	"math/big"
	"runtime"
	"sync"
	"time"

	"cosmossdk.io/collections"
	"github.com/btcsuite/btcd/wire"
	cmtproto "github.com/cometbft/cometbft/proto/tendermint/types"
	sdk "github.com/cosmos/cosmos-sdk/types"
	"github.com/ethereum/go-ethereum/core/types/goattypes"
	bitcointypes "github.com/goatnetwork/goat/x/bitcoin/types"
	relayertypes "github.com/goatnetwork/goat/x/relayer/types"
	"verifharness/mc"
	"verifharness/sim"
)

// C03 – deposits: SPV-proven, script-bound, matured, credited at most once, value-exact.

var c03E10 = big.NewInt(1e10)

const (
	c03Tip      = 300
	c03Mature   = 150
	c03Boundary = 200 // tip - 100
	c03Immature = 201
)

type depCase struct {
	Pos     int      `json:"tx_position"`
	NTx     int      `json:"block_txs"`
	Height  uint64   `json:"height"`
	Kind    string   `json:"kind"` // v0-secp v0-schnorr v1-secp
	Value   int64    `json:"value"`
	Rate    uint64   `json:"tax_rate"`
	Cap     uint64   `json:"tax_cap"`
	MinDep  uint64   `json:"min_deposit"`
	Devs    []string `json:"deviations,omitempty"`
	Comment string   `json:"comment,omitempty"`
}

type depWorld struct {
	n        *sim.Node
	root     sdk.Context
	keySecp  sim.BtcKey
	keySchn  sim.BtcKey
	keyOther sim.BtcKey // not registered
	evm      []byte
	evm2     []byte
	filler   map[uint64][]byte
	lastErr  string // why the last evaluated batch was refused
}

func c03Genesis() *sim.GenesisCfg {
	g := sim.DefaultCfg(1, 0)
	g.BtcTip = c03Tip
	g.BtcHashes = nil
	for h := uint64(c03Tip); h >= 140; h-- {
		g.BtcHashes = append(g.BtcHashes, sim.DSHA([]byte(fmt.Sprintf("filler-%d", h))))
	}
	g.BtcKey = sim.NewBtcKey("relayer-secp", false)
	g.ExtraKeys = []sim.BtcKey{sim.NewBtcKey("relayer-schnorr", true)}
	return g
}

func newDepWorld() (*depWorld, error) {
	g := c03Genesis()
	n, err := sim.NewChain(g)
	if err != nil {
		return nil, err
	}
	if r := n.RunBlock(&sim.Block{TimeDelta: time.Second}); r.Err != nil {
		return nil, r.Err
	}
	w := &depWorld{n: n, keySecp: g.BtcKey, keySchn: g.ExtraKeys[0], keyOther: sim.NewBtcKey("unregistered", false),
		evm: bytes.Repeat([]byte{0xa1}, 20), evm2: bytes.Repeat([]byte{0xb2}, 20)}
	hdr := cmtproto.Header{ChainID: g.ChainID, Height: n.Height + 1, Time: n.Time.Add(time.Second)}
	w.root = n.App.NewUncachedContext(false, hdr).WithConsensusParams(*g.Consensus)
	return w, nil
}

func (w *depWorld) close() { w.n.Close(); w.n.EL.Close() }

func has(devs []string, d string) bool {
	for _, x := range devs {
		if x == d {
			return true
		}
	}
	return false
}

// depBuilt is a constructed message together with the world truth needed by the oracle.
type depBuilt struct {
	msg    *bitcointypes.MsgNewDeposits
	blocks map[string]*sim.BtcBlock // header bytes -> real block
	voted  map[uint64][]byte        // what the harness voted for each touched height
}

func (w *depWorld) key(kind string) sim.BtcKey {
	if kind == "v0-schnorr" {
		return w.keySchn
	}
	return w.keySecp
}

// depositTx builds the deposit transaction of a case.
func (w *depWorld) depositTx(c *depCase, tag uint32, coinbase bool) ([]byte, uint32) {
	key := w.key(c.Kind)
	if has(c.Devs, "script:other-key") {
		key = w.keyOther
	}
	otherVersion := func(scr []byte) []byte {
		// the right 32-byte commitment under the other witness version (p2wsh <-> taproot form)
		out := append([]byte{}, scr...)
		if len(out) == 34 {
			if out[0] == 0 {
				out[0] = 0x51
			} else {
				out[0] = 0
			}
		}
		return out
	}
	magic := []byte("GTT0")
	var outs []sim.BtcOut
	switch c.Kind {
	case "v0-secp", "v0-schnorr":
		scr := sim.RefDepositScriptV0(key, w.evm)
		if has(c.Devs, "script:other-witness-version") {
			scr = otherVersion(scr)
		}
		outs = []sim.BtcOut{{Value: c.Value, Script: scr}, {Value: 777, Script: sim.RefSystemScript(w.keySecp)}}
	case "v1-secp":
		o0, o1 := sim.RefDepositScriptsV1(key, magic, w.evm)
		outs = []sim.BtcOut{{Value: c.Value, Script: o0}, {Value: 0, Script: o1}}
	}
	if has(c.Devs, "out:third-foreign") {
		// a well-formed deposit in its first outputs, and a further, larger output to somebody else
		// (the sender's change): the relayer claims that one
		outs = append(outs, sim.BtcOut{Value: 5 * c.Value, Script: sim.RefSystemScript(w.keyOther)})
	}
	if coinbase {
		return sim.CoinbaseTx(uint32(c.Height), outs...), 0
	}
	return sim.BtcTx(tag, outs...), 0
}

func (w *depWorld) build(c *depCase) *depBuilt {
	b := &depBuilt{blocks: map[string]*sim.BtcBlock{}, voted: map[uint64][]byte{}}
	// the block
	var txs [][]byte
	for i := 0; i < c.NTx; i++ {
		if i == c.Pos {
			tx, _ := w.depositTx(c, 1000+uint32(i), i == 0)
			txs = append(txs, tx)
		} else if i == 0 {
			txs = append(txs, sim.CoinbaseTx(uint32(c.Height), sim.BtcOut{Value: 5_000_000_000, Script: sim.RefSystemScript(w.keySchn)}))
		} else {
			txs = append(txs, sim.BtcTx(2000+uint32(i), sim.BtcOut{Value: 1234, Script: sim.RefSystemScript(w.keySecp)}))
		}
	}
	blk := sim.NewBtcBlock(c.Height, sim.DSHA([]byte("prev")), txs)
	other := sim.NewBtcBlock(c.Height, sim.DSHA([]byte("prev-other")), [][]byte{sim.CoinbaseTx(9, sim.BtcOut{Value: 1, Script: sim.RefSystemScript(w.keySecp)}), txs[c.Pos]})
	b.blocks[string(blk.Header)] = blk
	b.blocks[string(other.Header)] = other
	if !has(c.Devs, "hdr:voted-other-hash") {
		b.voted[c.Height] = blk.Hash()
	}

	// a genuine first item from another voted block (which also contains this case's
	// transaction at position 2): the item under test then comes second in the batch
	const gHeight = 145
	withG := has(c.Devs, "batch:after-genuine") || has(c.Devs, "hdr:first-items-header")
	gTx := sim.BtcTx(3000, sim.BtcOut{Value: 55555, Script: sim.RefDepositScriptV0(w.keySecp, w.evm)}, sim.BtcOut{Value: 777, Script: sim.RefSystemScript(w.keySecp)})
	gblk := sim.NewBtcBlock(gHeight, sim.DSHA([]byte("prev-g")), [][]byte{sim.CoinbaseTx(gHeight, sim.BtcOut{Value: 1, Script: sim.RefSystemScript(w.keySchn)}), gTx, txs[c.Pos]})
	var gDep *bitcointypes.Deposit
	if withG {
		b.blocks[string(gblk.Header)] = gblk
		b.voted[gHeight] = gblk.Hash()
		gDep = &bitcointypes.Deposit{Version: 0, BlockNumber: gHeight, TxIndex: 1, NoWitnessTx: gTx, OutputIndex: 0,
			IntermediateProof: gblk.Proof(1), EvmAddress: w.evm, RelayerPubkey: w.keySecp.Public()}
	}

	key := w.key(c.Kind)
	dep := &bitcointypes.Deposit{
		Version: 0, BlockNumber: c.Height, TxIndex: uint32(c.Pos), NoWitnessTx: txs[c.Pos], OutputIndex: 0,
		IntermediateProof: blk.Proof(c.Pos), EvmAddress: w.evm, RelayerPubkey: key.Public(),
	}
	if c.Kind == "v1-secp" {
		dep.Version = 1
	}
	header := blk.Header
	headerHeight := c.Height
	depth := len(dep.IntermediateProof) / 32
	msg := &bitcointypes.MsgNewDeposits{Proposer: w.n.Cfg.Proposer.AddrStr()}
	extra := []*bitcointypes.Deposit{}
	for _, d := range c.Devs {
		switch d {
		case "idx:+2^depth":
			dep.TxIndex += 1 << uint(depth)
		case "idx:+2^31":
			dep.TxIndex += 1 << 31
		case "idx:0":
			dep.TxIndex = 0
		case "idx:1":
			dep.TxIndex = 1
		case "idx:+1":
			dep.TxIndex++
		case "idx:-1":
			dep.TxIndex--
		case "proof:truncate":
			if depth > 0 {
				dep.IntermediateProof = dep.IntermediateProof[:len(dep.IntermediateProof)-32]
			}
		case "proof:extend":
			dep.IntermediateProof = append(append([]byte{}, dep.IntermediateProof...), make([]byte, 32)...)
		case "proof:swap":
			if depth > 1 {
				p := append([]byte{}, dep.IntermediateProof...)
				copy(p[:32], dep.IntermediateProof[32:64])
				copy(p[32:64], dep.IntermediateProof[:32])
				dep.IntermediateProof = p
			}
		case "proof:bitflip":
			if depth > 0 {
				p := append([]byte{}, dep.IntermediateProof...)
				p[3] ^= 4
				dep.IntermediateProof = p
			}
		case "proof:ragged":
			dep.IntermediateProof = append(append([]byte{}, dep.IntermediateProof...), 7)
		case "hdr:other-block":
			header = other.Header
		case "hdr:bitflip":
			header = append([]byte{}, header...)
			header[70] ^= 1
		case "hdr:79":
			header = header[:79]
		case "hdr:81":
			header = append(append([]byte{}, header...), 0)
		case "hdr:unvoted-height":
			dep.BlockNumber = 120
			headerHeight = 120
		case "hdr:voted-other-hash":
		case "hdr:missing-for-height":
			headerHeight = c.Height + 1
		case "out:wrong":
			dep.OutputIndex = 1
		case "out:range":
			dep.OutputIndex = 2
		case "out:third-foreign":
			dep.OutputIndex = 2
		case "ver:2":
			dep.Version = 2
		case "ver:swap":
			dep.Version = 1 - dep.Version
		case "key:unregistered":
			dep.RelayerPubkey = w.keyOther.Public()
		case "key:other-registered":
			if c.Kind == "v0-schnorr" {
				dep.RelayerPubkey = w.keySecp.Public()
			} else {
				dep.RelayerPubkey = w.keySchn.Public()
			}
		case "hdr:first-items-header":
			// the item's height is voted with its own block's hash, but the header listed for it is
			// the raw header of the first item's block (in which the transaction really is)
			header = gblk.Header
			dep.TxIndex = 2
			dep.IntermediateProof = gblk.Proof(2)
		case "script:other-key", "script:other-witness-version", "hdr:dup-height", "batch:after-genuine":
		case "evm:other":
			dep.EvmAddress = w.evm2
		case "evm:19":
			dep.EvmAddress = w.evm[:19]
		case "tx:size64":
			dep.NoWitnessTx = dep.NoWitnessTx[:64]
		case "tx:oversize":
			dep.NoWitnessTx = append(append([]byte{}, dep.NoWitnessTx...), make([]byte, 32*1024)...)
		case "tx:trailing-byte":
			dep.NoWitnessTx = append(append([]byte{}, dep.NoWitnessTx...), 0)
		case "dup:in-batch":
			cp := *dep
			extra = append(extra, &cp)
		case "nil:deposit":
			extra = append(extra, nil)
		case "sender:other":
			msg.Proposer = sim.NewKey("stranger").AddrStr()
		case "key:nil":
			dep.RelayerPubkey = nil
		default:
			panic("unknown deviation " + d)
		}
	}
	msg.Deposits = append([]*bitcointypes.Deposit{dep}, extra...)
	msg.BlockHeaders = []*bitcointypes.BlockHeader{{Height: headerHeight, Raw: header}}
	if withG {
		msg.Deposits = append([]*bitcointypes.Deposit{gDep}, msg.Deposits...)
		msg.BlockHeaders = append([]*bitcointypes.BlockHeader{{Height: gHeight, Raw: gblk.Header}}, msg.BlockHeaders...)
	}
	if has(c.Devs, "hdr:dup-height") {
		msg.BlockHeaders = append(msg.BlockHeaders, &bitcointypes.BlockHeader{Height: headerHeight, Raw: header})
	}
	b.msg = msg
	return b
}

// refTax is the tax formula of the statement.
func refTax(value, rate, cap uint64) uint64 {
	if rate == 0 || value <= 10000 {
		return 0
	}
	t := value / 10000 * rate
	if cap > 0 && t > cap {
		t = cap
	}
	return t
}

// refDepositOK evaluates the statement's conditions for one deposit of an accepted batch.
func (w *depWorld) refDepositOK(ctx sdk.Context, b *depBuilt, d *bitcointypes.Deposit, params bitcointypes.Params, seen map[string]bool) (ok bool, why string, value uint64, txid []byte) {
	if d == nil {
		return false, "nil deposit", 0, nil
	}
	var header []byte
	for _, h := range b.msg.BlockHeaders {
		if h != nil && h.Height == d.BlockNumber {
			header = h.Raw
		}
	}
	if len(header) != 80 {
		return false, "no 80-byte header for the deposit's height", 0, nil
	}
	voted, err := w.n.App.BitcoinKeeper.BlockHashes.Get(ctx, d.BlockNumber)
	if err != nil {
		return false, "height not voted", 0, nil
	}
	if !bytes.Equal(voted, sim.DSHA(header)) {
		return false, "header does not hash to the voted block hash", 0, nil
	}
	txid = sim.DSHA(d.NoWitnessTx)
	if !sim.RefVerifyMerkle(txid, header[36:68], d.IntermediateProof, d.TxIndex) {
		return false, "transaction does not hash into the header's merkle root at the claimed position", 0, txid
	}
	if len(d.NoWitnessTx) <= 64 {
		return false, "64-byte transaction", 0, txid
	}
	tx := new(wire.MsgTx)
	rd := bytes.NewReader(d.NoWitnessTx)
	if err := tx.DeserializeNoWitness(rd); err != nil || rd.Len() > 0 {
		return false, "not a transaction", 0, txid
	}
	if int(d.OutputIndex) >= len(tx.TxOut) {
		return false, "output index out of range", 0, txid
	}
	out := tx.TxOut[d.OutputIndex]
	value = uint64(out.Value)
	if value < params.MinDepositAmount {
		return false, "below the minimum deposit", value, txid
	}
	if len(d.EvmAddress) != 20 || d.RelayerPubkey == nil {
		return false, "malformed target", value, txid
	}
	registered, _ := w.n.App.RelayerKeeper.HasPubkey(ctx, relayertypes.EncodePublicKey(d.RelayerPubkey))
	if !registered {
		return false, "relayer key not registered", value, txid
	}
	var key sim.BtcKey
	found := false
	for _, k := range []sim.BtcKey{w.keySecp, w.keySchn, w.keyOther} {
		if bytes.Equal(relayertypes.EncodePublicKey(k.Public()), relayertypes.EncodePublicKey(d.RelayerPubkey)) {
			key, found = k, true
		}
	}
	if !found {
		return false, "unknown key", value, txid
	}
	switch d.Version {
	case 0:
		if !bytes.Equal(out.PkScript, sim.RefDepositScriptV0(key, d.EvmAddress)) {
			return false, "output script does not commit to (key, evm address) [v0]", value, txid
		}
	case 1:
		if key.Schnorr || d.OutputIndex != 0 || len(tx.TxOut) < 2 {
			return false, "v1 shape", value, txid
		}
		o0, o1 := sim.RefDepositScriptsV1(key, params.DepositMagicPrefix, d.EvmAddress)
		if !bytes.Equal(out.PkScript, o0) || !bytes.Equal(tx.TxOut[1].PkScript, o1) {
			return false, "output scripts do not commit to (key, evm address) [v1]", value, txid
		}
	default:
		return false, "unknown version", value, txid
	}
	// coinbase maturity by ground truth, whatever index was claimed
	if blk, ok := b.blocks[string(header)]; ok && bytes.Equal(blk.Txids()[0], txid) {
		tip, _ := w.n.App.BitcoinKeeper.BlockTip.Peek(ctx)
		if tip < d.BlockNumber+100 {
			return false, "immature coinbase", value, txid
		}
	}
	id := fmt.Sprintf("%x:%d", txid, d.OutputIndex)
	if seen[id] {
		return false, "credited twice", value, txid
	}
	seen[id] = true
	return true, "", value, txid
}

func (w *depWorld) eval(c *depCase) (accepted bool, violation string, class string) {
	ctx, _ := w.root.CacheContext()
	k := w.n.App.BitcoinKeeper
	params, err := k.Params.Get(ctx)
	must(err)
	params.DepositTaxRate, params.MaxDepositTax = c.Rate, c.Cap
	if c.MinDep != 0 {
		params.MinDepositAmount = c.MinDep
	}
	if err := params.Validate(); err != nil {
		w.lastErr = "setting refused by Params.Validate: " + err.Error()
		return false, "", ""
	}
	must(k.Params.Set(ctx, params))
	b := w.build(c)
	for h, hash := range b.voted {
		must(k.BlockHashes.Set(ctx, h, hash))
	}
	seen := map[string]bool{}
	// previously credited outputs (none in the single-batch cases)
	before, _ := k.EthTxQueue.Get(ctx)
	tctx, _ := ctx.CacheContext()
	_, err, _ = w.n.Deliver(tctx, b.msg)
	if err != nil {
		w.lastErr = err.Error()
		return false, "", ""
	}
	for _, d := range b.msg.Deposits {
		ok, why, _, _ := w.refDepositOK(ctx, b, d, params, seen)
		if !ok {
			return true, "batch accepted although: " + why, "credited-without:" + why
		}
	}
	after, _ := k.EthTxQueue.Get(tctx)
	newRec := after.Deposits[len(before.Deposits):]
	if len(newRec) != len(b.msg.Deposits) {
		return true, fmt.Sprintf("%d deposits accepted but %d receipts queued", len(b.msg.Deposits), len(newRec)), "receipt-count"
	}
	for i, rec := range newRec {
		d := b.msg.Deposits[i]
		tx := new(wire.MsgTx)
		_ = tx.DeserializeNoWitness(bytes.NewReader(d.NoWitnessTx))
		value := uint64(tx.TxOut[d.OutputIndex].Value)
		tax := refTax(value, c.Rate, c.Cap)
		if rec.Amount+rec.Tax != value || rec.Tax != tax || rec.Tax >= value || !bytes.Equal(rec.Address, d.EvmAddress) || rec.Txout != d.OutputIndex || !bytes.Equal(rec.Txid, sim.DSHA(d.NoWitnessTx)) {
			return true, fmt.Sprintf("receipt amount=%d tax=%d for value %d (rate %d cap %d): expected tax %d", rec.Amount, rec.Tax, value, c.Rate, c.Cap, tax), "value-inexact"
		}
		hasDep, _ := k.Deposited.Has(tctx, collections.Join(rec.Txid, rec.Txout))
		if !hasDep {
			return true, "accepted deposit not recorded as deposited", "not-recorded"
		}
	}
	// value-exactness up to the hand-over: the deposit transactions the execution layer will
	// receive carry (value - tax) and tax in wei (1 satoshi = 1e10 wei), in arbitrary precision
	hctx, _ := tctx.CacheContext()
	want := map[string][2]*big.Int{}
	for _, rec := range newRec {
		want[fmt.Sprintf("%x:%d", rec.Txid, rec.Txout)] = [2]*big.Int{new(big.Int).Mul(new(big.Int).SetUint64(rec.Amount), c03E10), new(big.Int).Mul(new(big.Int).SetUint64(rec.Tax), c03E10)}
	}
	for round := 0; round < 4 && len(want) > 0; round++ {
		txs, err := k.DequeueBitcoinModuleTx(hctx)
		if err != nil {
			return true, "hand-over of the accepted deposits fails: " + err.Error(), "hand-over-fails"
		}
		for _, st := range sim.DecodeSysTxs(txs) {
			dt, ok := st.Inner.(*goattypes.DepositTx)
			if !ok {
				continue
			}
			// goat-geth's reversed-txid convention is the bridge's; match on either byte order
			key := fmt.Sprintf("%x:%d", dt.Txid.Bytes(), dt.TxOut)
			w, ok := want[key]
			if !ok {
				rev := append([]byte{}, dt.Txid.Bytes()...)
				for i, j := 0, len(rev)-1; i < j; i, j = i+1, j-1 {
					rev[i], rev[j] = rev[j], rev[i]
				}
				key = fmt.Sprintf("%x:%d", rev, dt.TxOut)
				w, ok = want[key]
			}
			if !ok {
				continue
			}
			if dt.Amount.Cmp(w[0]) != 0 || dt.Tax.Cmp(w[1]) != 0 {
				return true, fmt.Sprintf("deposit handed over with amount %s tax %s wei, credited %s + %s", dt.Amount, dt.Tax, w[0], w[1]), "value-inexact-at-hand-over"
			}
			delete(want, key)
		}
	}
	if len(want) > 0 {
		return true, fmt.Sprintf("%d accepted deposits are not handed over within 4 blocks", len(want)), "not-handed-over"
	}
	return true, "", ""
}

var c03Devs = []string{
	"idx:+2^depth", "idx:+2^31", "idx:0", "idx:1", "idx:+1", "idx:-1",
	"proof:truncate", "proof:extend", "proof:swap", "proof:bitflip", "proof:ragged",
	"hdr:other-block", "hdr:bitflip", "hdr:79", "hdr:81", "hdr:unvoted-height", "hdr:voted-other-hash", "hdr:missing-for-height", "hdr:dup-height",
	"out:wrong", "out:range", "out:third-foreign", "ver:2", "ver:swap", "key:unregistered", "key:other-registered", "script:other-key", "key:nil",
	"evm:other", "evm:19", "tx:size64", "tx:oversize", "tx:trailing-byte", "dup:in-batch", "nil:deposit", "sender:other",
	"batch:after-genuine", "hdr:first-items-header", "script:other-witness-version",
}

func c03Cases(thorough bool) []*depCase {
	var cases []*depCase
	kinds := []string{"v0-secp", "v0-schnorr", "v1-secp"}
	heights := []uint64{c03Mature, c03Boundary, c03Immature}
	type pn struct{ pos, n int }
	poss := []pn{{0, 1}, {0, 4}, {1, 2}, {2, 3}, {4, 5}}
	values := []int64{10000, 10001, 19999, 20000, 100_000_000, 1 << 62}
	type pr struct{ rate, cap uint64 }
	// parameter settings: everything the chain's own validation admits (settings it refuses are
	// skipped at evaluation time) - including the largest rates
	params := []pr{{0, 0}, {1, 0}, {9999, 0}, {9999, 1}, {1, 1 << 40}, {20, 100_000_000}, {10000, 0}, {10000, 100_000_000}, {10001, 0}}
	// genuine core: full product
	for _, k := range kinds {
		for _, h := range heights {
			for _, p := range poss {
				for _, v := range values {
					for _, q := range params {
						cases = append(cases, &depCase{Pos: p.pos, NTx: p.n, Height: h, Kind: k, Value: v, Rate: q.rate, Cap: q.cap})
					}
				}
			}
		}
	}
	// minimum-deposit boundary
	for _, k := range kinds {
		for _, v := range []int64{9999, 10000, 1000, 1001} {
			cases = append(cases, &depCase{Pos: 1, NTx: 3, Height: c03Mature, Kind: k, Value: v, Rate: 9999, Cap: 0, Comment: "min-deposit boundary"},
				&depCase{Pos: 1, NTx: 3, Height: c03Mature, Kind: k, Value: v, Rate: 9999, Cap: 0, MinDep: 1001, Comment: "min-deposit 1001"})
		}
	}
	// single and double deviations on a reduced core
	coreH := []uint64{c03Mature, c03Immature}
	corePos := []pn{{0, 1}, {0, 4}, {2, 3}, {1, 2}}
	for _, k := range kinds {
		for _, h := range coreH {
			for _, p := range corePos {
				for i, d1 := range c03Devs {
					cases = append(cases, &depCase{Pos: p.pos, NTx: p.n, Height: h, Kind: k, Value: 123456, Rate: 20, Cap: 0, Devs: []string{d1}})
					for j, d2 := range c03Devs[i+1:] {
						if d1[:3] == d2[:3] && d1[:3] != "hdr" {
							continue // same field
						}
						cases = append(cases, &depCase{Pos: p.pos, NTx: p.n, Height: h, Kind: k, Value: 123456, Rate: 20, Cap: 0, Devs: []string{d1, d2}})
						if !thorough || k != "v0-secp" || h != c03Immature {
							continue
						}
						// deviation bound 3 on the immature-coinbase core
						for _, d3 := range c03Devs[i+1+j+1:] {
							if d3[:3] == d2[:3] || d3[:3] == d1[:3] {
								continue
							}
							cases = append(cases, &depCase{Pos: p.pos, NTx: p.n, Height: h, Kind: k, Value: 123456, Rate: 20, Cap: 0, Devs: []string{d1, d2, d3}})
						}
					}
				}
			}
		}
	}
	return cases
}

func runC03(r *mc.Run) {
	cases := c03Cases(r.Thorough())
	r.Rule = "single batch: full product of genuine cores (key kind/version x height {mature, boundary, immature} x tx position incl. coinbase x value x tax params) + every single deviation and every pair of deviations (37 deviation kinds: claimed index, proof, header, output, version, key, address, size, batch shape, the item placed second after a genuine item of another block, the first item's raw header listed under the item's own height) on a reduced core, each delivered to the real MsgNewDeposits handler; oracle evaluates the statement's conditions on the accepted message against the reference Bitcoin world (ground-truth coinbase position, independent merkle/script builders) and checks receipts amount+tax==value, tax formula; histories: depth-3 sequences of batches for at-most-once"
	r.Assumptions = []string{"voted block hashes are injected directly into the BlockHashes collection (NewBlockHashes itself is covered by C06/C01)", "SHA-256, secp256k1 trusted", "only-if direction: rejection of a well-formed deposit is not a violation"}
	r.States.Store(int64(len(cases)))
	var mu sync.Mutex
	var pool []*depWorld
	get := func() *depWorld {
		mu.Lock()
		defer mu.Unlock()
		if len(pool) > 0 {
			w := pool[len(pool)-1]
			pool = pool[:len(pool)-1]
			return w
		}
		w, err := newDepWorld()
		if err != nil {
			panic(err)
		}
		return w
	}
	put := func(w *depWorld) { mu.Lock(); pool = append(pool, w); mu.Unlock() }
	mc.Parallel(len(cases), runtime.NumCPU(), func(i int) {
		c := cases[i]
		w := get()
		defer put(w)
		acc, msg, class := w.eval(c)
		r.Transitions.Add(1)
		r.Validated.Add(1)
		if acc {
			if len(c.Devs) == 0 {
				r.Outcome("genuine-accepted")
			} else {
				r.Outcome("deviated-accepted")
			}
		} else {
			if len(c.Devs) == 0 {
				r.Outcome("genuine-rejected")
				r.Reason(fmt.Sprintf("genuine:h=%d,pos=%d", c.Height, c.Pos), w.lastErr)
			} else {
				r.Outcome("deviated-rejected")
				if len(c.Devs) == 1 {
					r.Reason(c.Devs[0], w.lastErr)
				}
			}
		}
		if i%499 == 0 {
			r.Sample(c)
		}
		if msg != "" {
			cc := *c
			r.Violate(mc.Violation{Class: class, Msg: fmt.Sprintf("%s | case %+v", msg, cc), Detail: cc}, func() bool { _, m, _ := w.eval(&cc); return m != "" })
		}
	})
	if r.OutcomeCount("genuine-accepted") == 0 {
		r.Cap("no genuine deposit was accepted: harness problem, exploration is vacuous")
	}
	runC03Histories(r, get, put)
	for _, w := range pool {
		w.close()
	}
}

// runC03Histories explores depth-3 sequences of batches over two deposits (and a second
// output of the same transaction) and checks that each (txid, vout) is credited at most once.
func runC03Histories(r *mc.Run, get func() *depWorld, put func(*depWorld)) {
	w := get()
	defer put(w)
	k := w.n.App.BitcoinKeeper
	// one block with three deposit transactions
	mk := func(tag uint32, evm []byte) []byte {
		return sim.BtcTx(tag, sim.BtcOut{Value: 50000, Script: sim.RefDepositScriptV0(w.keySecp, evm)}, sim.BtcOut{Value: 60000, Script: sim.RefDepositScriptV0(w.keySecp, evm)})
	}
	txs := [][]byte{sim.CoinbaseTx(1, sim.BtcOut{Value: 1, Script: sim.RefSystemScript(w.keySecp)}), mk(1, w.evm), mk(2, w.evm)}
	blk := sim.NewBtcBlock(c03Mature, sim.DSHA([]byte("p")), txs)
	dep := func(pos int, vout uint32) *bitcointypes.Deposit {
		return &bitcointypes.Deposit{Version: 0, BlockNumber: c03Mature, TxIndex: uint32(pos), NoWitnessTx: txs[pos], OutputIndex: vout,
			IntermediateProof: blk.Proof(pos), EvmAddress: w.evm, RelayerPubkey: w.keySecp.Public()}
	}
	d1, d2, d1b := dep(1, 0), dep(2, 0), dep(1, 1)
	batches := map[string][]*bitcointypes.Deposit{"[d1]": {d1}, "[d1,d1]": {d1, d1}, "[d1,d2]": {d1, d2}, "[d2]": {d2}, "[d1']": {d1b}, "[d2,d1',d2]": {d2, d1b, d2}}
	names := []string{"[d1]", "[d1,d1]", "[d1,d2]", "[d2]", "[d1']", "[d2,d1',d2]"}
	var rec func(ctx sdk.Context, credited map[string]int, path []string, depth int)
	rec = func(ctx sdk.Context, credited map[string]int, path []string, depth int) {
		if depth == 3 {
			return
		}
		for _, nm := range names {
			bctx, _ := ctx.CacheContext()
			tctx, write := bctx.CacheContext()
			msg := &bitcointypes.MsgNewDeposits{Proposer: w.n.Cfg.Proposer.AddrStr(), Deposits: batches[nm], BlockHeaders: []*bitcointypes.BlockHeader{{Height: c03Mature, Raw: blk.Header}}}
			_, err, _ := w.n.Deliver(tctx, msg)
			r.Transitions.Add(1)
			r.Validated.Add(1)
			nc := map[string]int{}
			for k, v := range credited {
				nc[k] = v
			}
			p := append(append([]string{}, path...), nm)
			if err == nil {
				write()
				r.Outcome("history-batch-accepted")
				for _, d := range batches[nm] {
					nc[fmt.Sprintf("%x:%d", sim.DSHA(d.NoWitnessTx), d.OutputIndex)]++
				}
			} else {
				r.Outcome("history-batch-rejected")
			}
			q, _ := k.EthTxQueue.Get(bctx)
			cnt := map[string]int{}
			for _, rc := range q.Deposits {
				cnt[fmt.Sprintf("%x:%d", rc.Txid, rc.Txout)]++
			}
			for id, n := range cnt {
				if n > 1 {
					r.Violate(mc.Violation{Class: "deposit-credited-twice", Msg: fmt.Sprintf("%s queued %d times after batches %v", id, n, p), Detail: map[string]any{"history": p}}, nil)
				}
			}
			for id, n := range nc {
				if n > 1 {
					r.Violate(mc.Violation{Class: "deposit-credited-twice", Msg: fmt.Sprintf("%s accepted %d times over batches %v", id, n, p), Detail: map[string]any{"history": p}}, nil)
				}
			}
			rec(bctx, nc, p, depth+1)
		}
	}
	ctx, _ := w.root.CacheContext()
	must(k.BlockHashes.Set(ctx, c03Mature, blk.Hash()))
	rec(ctx, map[string]int{}, nil, 0)
}

func replayC03(detail json.RawMessage) (bool, string) {
	var c depCase
	if err := json.Unmarshal(detail, &c); err != nil || c.Kind == "" {
		return false, "history replays are re-run by the check itself"
	}
	w, err := newDepWorld()
	if err != nil {
		return false, err.Error()
	}
	defer w.close()
	acc, msg, class := w.eval(&c)
	return msg != "", fmt.Sprintf("accepted=%v %s %s", acc, class, msg)
}

func init() { register(&Check{ID: "C03", Run: runC03, Replay: replayC03}) }
