package checks

import (
	"encoding/json"
	"fmt"
	"math/bits"
	"runtime"
	"sort"
	"sync"
	"time"

	sdk "github.com/cosmos/cosmos-sdk/types"
	"github.com/ethereum/go-ethereum/common"
	"github.com/ethereum/go-ethereum/core/types/goattypes"
	bitcointypes "github.com/goatnetwork/goat/x/bitcoin/types"
	relayertypes "github.com/goatnetwork/goat/x/relayer/types"
	"verifharness/enga"
	"verifharness/mc"
	"verifharness/sim"
)

// C01 – voted relayer proposals need a genuine two-thirds quorum.

type c01Case struct {
	Voters     int    `json:"n_voters"`
	Kind       string `json:"kind"`
	Marks      []int  `json:"marked_positions"`
	BitmapLen  int    `json:"bitmap_len"`
	Signers    []int  `json:"signers"` // 0 = proposer, i+1 = voter i
	Perturb    string `json:"context_perturbation,omitempty"`
	RawBitmap  []byte `json:"raw_bitmap,omitempty"`
	WantAccept bool   `json:"reference_accepts"`
	// SharedKey: the last voter's seat carries the same BLS vote key as the seat before it
	// (reachable at run time: two joiners registered with the same key hash)
	SharedKey bool `json:"shared_vote_key,omitempty"`
	Leaving   bool `json:"first_and_last_voter_asked_to_leave,omitempty"`
}

type c01World struct {
	n       *sim.Node
	root    sdk.Context
	members []sim.Member // 0 = proposer
	seq     uint64
	epoch   uint64
	tip     uint64
}

func newC01World(nVoters int) (*c01World, error) { return newC01WorldShared(nVoters, false) }

// newC01WorldLeaving: the first and the last voter have been asked to leave (real removal requests
// from the execution layer): until the epoch ends they are still listed, still current voters, and a
// mark on them needs their signature like any other.
func newC01WorldLeaving(nVoters int) (*c01World, error) {
	w, err := newC01WorldShared(nVoters, false)
	if err != nil {
		return nil, err
	}
	ctx, _ := w.root.CacheContext()
	var rr goattypes.RelayerRequests
	seen := map[int]bool{}
	for _, i := range []int{1, nVoters} {
		if i >= 1 && i <= nVoters && !seen[i] {
			seen[i] = true
			rr.Removes = append(rr.Removes, &goattypes.RemoveVoterRequest{Voter: common.BytesToAddress(w.members[i].Addr())})
		}
	}
	if err := w.n.App.RelayerKeeper.ProcessRelayerRequest(ctx, rr); err != nil {
		return nil, err
	}
	left := 0
	for i := 1; i <= nVoters; i++ {
		if v, err := w.n.App.RelayerKeeper.Voters.Get(ctx, w.members[i].AddrStr()); err == nil && v.Status == relayertypes.VOTER_STATUS_OFF_BOARDING {
			left++
		}
	}
	if left == 0 {
		return nil, fmt.Errorf("no voter is off-boarding after the removal requests")
	}
	w.root = ctx
	return w, nil
}

func newC01WorldShared(nVoters int, shared bool) (*c01World, error) {
	cfg := sim.DefaultCfg(1, nVoters)
	n, err := sim.NewChain(cfg)
	if err != nil {
		return nil, err
	}
	if r := n.RunBlock(&sim.Block{TimeDelta: time.Second}); r.Err != nil {
		return nil, r.Err
	}
	w := &c01World{n: n, root: n.Ctx(), tip: cfg.BtcTip}
	w.members = append([]sim.Member{cfg.Proposer}, cfg.Voters...)
	if shared && nVoters >= 2 {
		// two seats, one vote key: the second seat's record and the harness's signer both use the
		// key of the seat before it; a mark on each seat demands that key's signature twice
		ctx, _ := n.Ctx().CacheContext()
		last, prev := w.members[nVoters], w.members[nVoters-1]
		rec, err := n.App.RelayerKeeper.Voters.Get(ctx, last.AddrStr())
		if err != nil {
			return nil, err
		}
		rec.VoteKey = prev.BLS.PK
		if err := n.App.RelayerKeeper.Voters.Set(ctx, last.AddrStr(), rec); err != nil {
			return nil, err
		}
		w.members = append([]sim.Member{}, w.members...)
		w.members[nVoters].BLS = prev.BLS
		w.root = ctx
	}
	return w, nil
}

func (w *c01World) close() { w.n.Close(); w.n.EL.Close() }

func refThreshold(n int) int { return (2*(n+1) + 2) / 3 }

// refAccept is the quorum predicate written from the property statement.
func refAccept(n int, marks []int, signers []int) bool {
	seen := map[int]bool{}
	for _, m := range marks {
		if m < 0 || m >= n || seen[m] {
			return false // a mark that does not denote a current voter
		}
		seen[m] = true
	}
	want := map[int]bool{0: true}
	for _, m := range marks {
		want[m+1] = true
	}
	if len(signers) != len(want) {
		return false
	}
	for _, s := range signers {
		if !want[s] {
			return false
		}
	}
	return len(marks)+1 >= refThreshold(n)
}

// refAcceptShared is the same predicate when the last two seats carry one vote key: what must
// match is the multiset of keys - the keys behind the proposer and the marked seats on one
// side, the keys that signed on the other (member index n signs with the key of member n-1).
func refAcceptShared(n int, marks []int, signers []int) bool {
	keyOf := func(member int) int {
		if member == n {
			return n - 1
		}
		return member
	}
	seen := map[int]bool{}
	need := map[int]int{0: 1}
	for _, m := range marks {
		if m < 0 || m >= n || seen[m] {
			return false
		}
		seen[m] = true
		need[keyOf(m+1)]++
	}
	have := map[int]int{}
	for _, s := range signers {
		have[keyOf(s)]++
	}
	if len(have) != len(need) {
		return false
	}
	for k, c := range need {
		if have[k] != c {
			return false
		}
	}
	return len(marks)+1 >= refThreshold(n)
}

// build constructs the message of the given kind with a vote signed by the signers.
func (w *c01World) build(c *c01Case) sdk.Msg {
	prop := w.members[0].AddrStr()
	var signers []sim.Member
	for _, s := range c.Signers {
		signers = append(signers, w.members[s])
	}
	bmp := c.RawBitmap
	if bmp == nil {
		bmp = sim.Bitmap(c.Marks, c.BitmapLen)
	}
	vc := sim.VoteCtx{ChainID: w.n.Cfg.ChainID, Proposer: prop, Sequence: w.seq, Epoch: w.epoch}
	vote := &relayertypes.Votes{Sequence: w.seq, Epoch: w.epoch, Voters: bmp}
	var msg sdk.Msg
	switch c.Kind {
	case "NewBlockHashes":
		m := &bitcointypes.MsgNewBlockHashes{Proposer: prop, Vote: vote, StartBlockNumber: w.tip + 1, BlockHash: [][]byte{sim.DSHA([]byte("c01-block"))}}
		vc.Method, vc.Payload = m.MethodName(), m.VoteSigDoc()
		msg = m
	case "NewPubkey":
		m := &bitcointypes.MsgNewPubkey{Proposer: prop, Vote: vote, Pubkey: sim.NewBtcKey("c01-new", false).Public()}
		vc.Method, vc.Payload = m.MethodName(), m.VoteSigDoc()
		msg = m
	case "NewConsolidation":
		tx := sim.BtcTx(1, sim.BtcOut{Value: 50000, Script: sim.P2WPKHScript(w.n.Cfg.BtcKey)})
		m := &bitcointypes.MsgNewConsolidation{Proposer: prop, Vote: vote, NoWitnessTx: tx}
		vc.Method, vc.Payload = m.MethodName(), m.VoteSigDoc()
		msg = m
	default:
		panic("kind " + c.Kind)
	}
	// single-field perturbations of the signing context
	switch c.Perturb {
	case "":
	case "chain-id":
		vc.ChainID += "x"
	case "sequence+1-signed":
		vc.Sequence++
	case "epoch+1-signed":
		vc.Epoch++
	case "method":
		vc.Method = bitcointypes.NewConsolidationMethodSigName + "X"
	case "proposer-signed":
		vc.Proposer = w.members[len(w.members)-1].AddrStr() + "x"
	case "payload":
		vc.Payload = append(append([]byte{}, vc.Payload...), 1)
	case "claimed-sequence+1":
		vote.Sequence++
		vc.Sequence++ // the voters really signed sequence+1; it is simply not the current one
	case "claimed-epoch+1":
		vote.Epoch++
		vc.Epoch++
	default:
		panic("perturbation " + c.Perturb)
	}
	vote.Signature = sim.AggregateVote(signers, vc)
	return msg
}

var c01Stores = []string{"relayer", "bitcoin", "locking", "goat"}

// eval delivers the message on a throw-away branch and reports accept/reject.
func (w *c01World) eval(c *c01Case) (accepted bool, panicked any, changedOnReject []string) {
	ctx, _ := w.root.CacheContext()
	before := w.n.DumpStores(ctx, c01Stores...)
	inner, _ := ctx.CacheContext() // what runTx's msCache does: discarded on error
	_, err, p := w.n.Deliver(inner, w.build(c))
	if err != nil || p != nil {
		// the transaction-level branch is discarded by baseapp on error: state == before
		after := w.n.DumpStores(ctx, c01Stores...)
		return false, p, before.Diff(after)
	}
	return true, nil, nil
}

func subsets(n int) [][]int {
	var out [][]int
	for m := 0; m < 1<<uint(n); m++ {
		var s []int
		for i := 0; i < n; i++ {
			if m>>uint(i)&1 == 1 {
				s = append(s, i)
			}
		}
		out = append(out, s)
	}
	sort.SliceStable(out, func(i, j int) bool { return len(out[i]) < len(out[j]) })
	return out
}

func runC01(r *mc.Run) {
	maxN := 3
	if r.Thorough() {
		maxN = 5
	}
	r.Bounds["max_voters"] = maxN
	r.Rule = "for each group size n: every subset of the position alphabet {0..n-1} u {n,n+1,63,64,255} as bitmap (minimal 8-byte-multiple encoding, plus longer encodings for the in-range marks) x every subset of members that signed, delivered through the application's MsgServiceRouter handler of MsgNewBlockHashes; NewPubkey and NewConsolidation: the same full product for n <= 2, accepting class + rejecting representatives above; every single-field perturbation of the signing context on the accepting case of each kind; odd bitmap lengths; groups of 2 and 3 voters in which two seats carry the same vote key (every mark set x every signer set: a mark on each seat needs that key's signature twice); groups of 2 and 3 voters in which the first and the last voter have been asked to leave (still listed until the epoch ends: every mark set x every signer set); Threshold() vs integer ceil for n in [0,255]; payload binding: for every voted kind (block-hash lists of 1, 2, 15, 16 hashes, new key, consolidation, process with 1 and 2 ids, replace) every single-field mutation of the payload (each byte of each byte field in two bits, lengths +-1, integers +-1 / high bits, list edits) delivered with the unchanged genuine vote must be rejected"
	r.Assumptions = []string{"BLS12-381 aggregate signatures are unforgeable (trusted)", "MsgProcessWithdrawal/MsgReplaceWithdrawal quorum cases are exercised in C05's per-state ill-formed variants"}

	// Threshold() for the whole domain
	for n := 0; n <= 255; n++ {
		rel := relayertypes.Relayer{Voters: make([]string, n)}
		r.Transitions.Add(1)
		if got, want := rel.Threshold(), refThreshold(n); got != want {
			r.Violate(mc.Violation{Class: "threshold-formula", Msg: fmt.Sprintf("Threshold() for %d voters = %d, ceil(2(n+1)/3) = %d", n, got, want), Detail: c01Case{Voters: n, Kind: "threshold"}}, nil)
		}
	}

	var cases []*c01Case
	for n := 0; n <= maxN; n++ {
		alpha := []int{}
		for i := 0; i < n; i++ {
			alpha = append(alpha, i)
		}
		alpha = append(alpha, n, n+1, 63, 64, 255)
		// dedupe (n or n+1 may coincide with 63/64 only for huge n)
		signerSets := subsets(n + 1)
		for _, ms := range subsets(len(alpha)) {
			marks := make([]int, len(ms))
			for i, k := range ms {
				marks[i] = alpha[k]
			}
			lens := []int{sim.MinBitmapLen(marks)}
			inRange := true
			for _, m := range marks {
				if m >= n {
					inRange = false
				}
			}
			if inRange {
				lens = []int{8, 16, 32}
			}
			for _, l := range lens {
				for _, ss := range signerSets {
					// prune: proposals the code rejects on counts alone need only a few signer sets
					if len(marks)+1 < refThreshold(n) && len(ss) > 2 {
						continue
					}
					cases = append(cases, &c01Case{Voters: n, Kind: "NewBlockHashes", Marks: marks, BitmapLen: l, Signers: ss})
					// the other voted kinds share VerifyProposal but have their own call sites: full product for the small groups
					if n <= 2 && l == lens[0] {
						cases = append(cases, &c01Case{Voters: n, Kind: "NewPubkey", Marks: marks, BitmapLen: l, Signers: ss},
							&c01Case{Voters: n, Kind: "NewConsolidation", Marks: marks, BitmapLen: l, Signers: ss})
					}
				}
			}
		}
		// other kinds: accepting class + one representative per rejecting class
		all := make([]int, n)
		for i := range all {
			all[i] = i
		}
		fullSigners := make([]int, n+1)
		for i := range fullSigners {
			fullSigners[i] = i
		}
		for _, kind := range []string{"NewPubkey", "NewConsolidation"} {
			cases = append(cases, &c01Case{Voters: n, Kind: kind, Marks: all, BitmapLen: 8, Signers: fullSigners})
			if n >= 1 {
				cases = append(cases,
					&c01Case{Voters: n, Kind: kind, Marks: all, BitmapLen: 8, Signers: fullSigners[:n]},                                         // one signer missing
					&c01Case{Voters: n, Kind: kind, Marks: all[:n-1], BitmapLen: 8, Signers: fullSigners},                                       // extra signer
					&c01Case{Voters: n, Kind: kind, Marks: append(append([]int{}, all[:n-1]...), n+36), BitmapLen: 8, Signers: fullSigners[:n]}, // mark beyond the list replaces a signature
					&c01Case{Voters: n, Kind: kind, Marks: nil, BitmapLen: 8, Signers: []int{0}},                                                // proposer alone
				)
			}
		}
		// context perturbations on the accepting case
		for _, p := range []string{"chain-id", "sequence+1-signed", "epoch+1-signed", "method", "proposer-signed", "payload", "claimed-sequence+1", "claimed-epoch+1"} {
			for _, kind := range []string{"NewBlockHashes", "NewPubkey", "NewConsolidation"} {
				cases = append(cases, &c01Case{Voters: n, Kind: kind, Marks: all, BitmapLen: 8, Signers: fullSigners, Perturb: p})
			}
		}
		// odd encodings: must be rejected (error or recovered panic), never applied
		for _, l := range []int{1, 7, 9, 31, 33, 40} {
			raw := make([]byte, l)
			for i := range raw {
				raw[i] = 0xff
			}
			cases = append(cases, &c01Case{Voters: n, Kind: "NewBlockHashes", RawBitmap: raw, Marks: []int{-1}, Signers: fullSigners})
		}
		cases = append(cases, &c01Case{Voters: n, Kind: "NewBlockHashes", RawBitmap: []byte{}, Marks: nil, Signers: []int{0}})
	}
	// seats sharing one vote key: every set of in-range marks x every signer set, n = 2 and 3
	for _, n := range []int{2, 3} {
		if n > maxN {
			continue
		}
		for _, marks := range subsets(n) {
			for _, ss := range subsets(n + 1) {
				cases = append(cases, &c01Case{Voters: n, Kind: "NewBlockHashes", Marks: marks, BitmapLen: 8, Signers: ss, SharedKey: true})
			}
		}
	}
	// members that have been asked to leave: every set of in-range marks x every signer set, n = 2 and 3
	for _, n := range []int{2, 3} {
		if n > maxN {
			continue
		}
		for _, marks := range subsets(n) {
			for _, ss := range subsets(n + 1) {
				cases = append(cases, &c01Case{Voters: n, Kind: "NewBlockHashes", Marks: marks, BitmapLen: 8, Signers: ss, Leaving: true})
			}
		}
	}
	for _, c := range cases {
		if c.SharedKey {
			c.WantAccept = refAcceptShared(c.Voters, c.Marks, c.Signers)
			continue
		}
		c.WantAccept = c.Perturb == "" && refAccept(c.Voters, c.Marks, c.Signers)
	}
	r.States.Store(int64(len(cases)))

	var mu sync.Mutex
	worlds := map[int][]*c01World{}
	getWorld := func(n int) *c01World {
		mu.Lock()
		defer mu.Unlock()
		if l := worlds[n]; len(l) > 0 {
			w := l[len(l)-1]
			worlds[n] = l[:len(l)-1]
			return w
		}
		var w *c01World
		var err error
		if n >= 200 {
			w, err = newC01WorldLeaving(n - 200)
		} else {
			w, err = newC01WorldShared(n%100, n >= 100)
		}
		if err != nil {
			panic(err)
		}
		return w
	}
	putWorld := func(n int, w *c01World) { mu.Lock(); worlds[n] = append(worlds[n], w); mu.Unlock() }

	mc.Parallel(len(cases), runtime.NumCPU(), func(i int) {
		c := cases[i]
		wk := c.Voters
		if c.SharedKey {
			wk += 100
		}
		if c.Leaving {
			wk += 200
		}
		w := getWorld(wk)
		defer putWorld(wk, w)
		acc, p, changed := w.eval(c)
		r.Transitions.Add(1)
		r.Validated.Add(1)
		switch {
		case acc:
			r.Outcome("accept:" + c.Kind)
		case p != nil:
			r.Outcome("reject-by-recovered-panic")
		default:
			r.Outcome("reject:" + c.Kind)
		}
		if i%997 == 0 {
			r.Sample(c)
		}
		if len(changed) > 0 {
			r.Violate(mc.Violation{Class: "state-changed-by-rejected-proposal", Msg: fmt.Sprintf("stores changed: %v", changed), Detail: c}, nil)
		}
		if acc != c.WantAccept {
			cls := fmt.Sprintf("quorum-verdict-mismatch:%s", c.Kind)
			if acc {
				beyond := false
				for _, m := range c.Marks {
					if m >= c.Voters {
						beyond = true
					}
				}
				if beyond {
					cls = "accepts-marks-beyond-voter-list"
				} else if c.Perturb != "" {
					cls = "accepts-vote-for-other-context:" + c.Perturb
				} else {
					cls = "accepts-without-quorum:" + c.Kind
				}
			}
			cc := *c
			r.Violate(mc.Violation{Class: cls,
				Msg:    fmt.Sprintf("%d voters, threshold %d, marks %v (%d-byte bitmap), signers %v, perturbation %q: implementation accepted=%v, reference=%v", c.Voters, refThreshold(c.Voters), c.Marks, c.BitmapLen, c.Signers, c.Perturb, acc, c.WantAccept),
				Detail: cc}, func() bool { a, _, _ := w.eval(&cc); return a != cc.WantAccept })
		}
	})
	for _, l := range worlds {
		for _, w := range l {
			w.close()
		}
	}
	c01Delivery(r)
	c01Binding(r)
	_ = bits.Len
}

func replayC01(detail json.RawMessage) (bool, string) {
	var probe struct {
		Voters *int `json:"n_voters"`
	}
	_ = json.Unmarshal(detail, &probe)
	if probe.Voters == nil {
		var d c01BindDetail
		if err := json.Unmarshal(detail, &d); err != nil {
			return false, err.Error()
		}
		return replayC01Bind(d)
	}
	var c c01Case
	if err := json.Unmarshal(detail, &c); err != nil {
		return false, err.Error()
	}
	if c.Kind == "threshold" {
		rel := relayertypes.Relayer{Voters: make([]string, c.Voters)}
		return rel.Threshold() != refThreshold(c.Voters), fmt.Sprintf("Threshold()=%d ref=%d", rel.Threshold(), refThreshold(c.Voters))
	}
	w, err := newC01WorldShared(c.Voters, c.SharedKey)
	if c.Leaving {
		w, err = newC01WorldLeaving(c.Voters)
	}
	if err != nil {
		return false, err.Error()
	}
	defer w.close()
	acc, p, changed := w.eval(&c)
	return acc != c.WantAccept || len(changed) > 0, fmt.Sprintf("accepted=%v reference=%v panic=%v changed=%v", acc, c.WantAccept, p, changed)
}

func init() { register(&Check{ID: "C01", Run: runC01, Replay: replayC01}) }

// c01Delivery ties the keeper-level verdict to "takes effect / changes nothing": class
// representatives are delivered as signed transactions in real blocks (Engine A); a rejected
// proposal must leave relayer and bridge stores equal to the same block without it.
func c01Delivery(r *mc.Run) {
	// once with a proposer that has accepted its role, once with a freshly elected one that has
	// not yet (its first transaction also decides the proposer-accepted flag: a refused proposal
	// must not)
	c01DeliveryOn(r, true)
	c01DeliveryOn(r, false)
}

func c01DeliveryOn(r *mc.Run, accepted bool) {
	cfg := c08Cfg()
	cfg.Accepted = accepted
	cfg.Voters = append(cfg.Voters, sim.NewMember("relayer-2"), sim.NewMember("relayer-3"))
	base, err := enga.NewWorld(cfg)
	must(err)
	defer base.Close()
	n := len(cfg.Voters) // 3 voters, threshold 3
	reps := []c01Case{
		{Voters: n, Kind: "NewBlockHashes", Marks: []int{0, 1}, BitmapLen: 8, Signers: []int{0, 1, 2}, WantAccept: true},
		{Voters: n, Kind: "NewBlockHashes", Marks: []int{0, 1, 2}, BitmapLen: 8, Signers: []int{0, 1, 2, 3}, WantAccept: true},
		{Voters: n, Kind: "NewBlockHashes", Marks: []int{0}, BitmapLen: 8, Signers: []int{0, 1}},
		{Voters: n, Kind: "NewBlockHashes", Marks: []int{0, 3}, BitmapLen: 8, Signers: []int{0, 1}},
		{Voters: n, Kind: "NewBlockHashes", Marks: []int{0, 40}, BitmapLen: 8, Signers: []int{0, 1}},
		{Voters: n, Kind: "NewBlockHashes", Marks: []int{0, 1}, BitmapLen: 8, Signers: []int{0, 1}},
		{Voters: n, Kind: "NewBlockHashes", Marks: []int{0, 1}, BitmapLen: 8, Signers: []int{0, 1, 2, 3}},
		{Voters: n, Kind: "NewBlockHashes", Marks: []int{0, 1}, BitmapLen: 8, Signers: []int{0, 1, 2}, Perturb: "epoch+1-signed"},
		{Voters: n, Kind: "NewPubkey", Marks: []int{0, 1}, BitmapLen: 8, Signers: []int{0, 1}},
		{Voters: n, Kind: "NewConsolidation", Marks: []int{1, 2}, BitmapLen: 8, Signers: []int{0, 2}},
	}
	stores := []string{"relayer", "bitcoin"}
	ref, err := base.Fork()
	must(err)
	eth, _, err := ref.N.BuildEthBlockTx(sim.EthBlockOpts{})
	must(err)
	rr := ref.N.RunBlock(&sim.Block{TimeDelta: 1e9, Txs: [][]byte{eth}})
	must(rr.Err)
	emptyDump := ref.N.DumpStores(ref.N.Ctx(), stores...).Hash()
	ref.Close()
	for i := range reps {
		c := reps[i]
		x, err := base.Fork()
		must(err)
		w := &c01World{n: x.N, root: x.N.Ctx(), tip: cfg.BtcTip}
		w.members = append([]sim.Member{cfg.Proposer}, cfg.Voters...)
		msg := w.build(&c)
		tx := x.N.SignFor(cfg.Proposer.Key, 0, 0, msg)
		eth, _, err := x.N.BuildEthBlockTx(sim.EthBlockOpts{})
		must(err)
		res := x.N.RunBlock(&sim.Block{TimeDelta: 1e9, Txs: [][]byte{eth, tx}})
		r.Transitions.Add(1)
		r.Validated.Add(1)
		if res.Err != nil {
			r.Violate(mc.Violation{Class: "block-with-voted-proposal-fails", Msg: res.Err.Error(), Detail: c}, nil)
			x.Close()
			continue
		}
		ok := res.Finalize.TxResults[1].Code == 0
		dump := x.N.DumpStores(x.N.Ctx(), stores...).Hash()
		switch {
		case ok != c.WantAccept:
			r.Violate(mc.Violation{Class: "delivered-proposal-verdict-mismatch:" + c.Kind, Msg: fmt.Sprintf("in a finalised block: accepted=%v reference=%v for %+v", ok, c.WantAccept, c), Detail: c}, nil)
		case !ok && dump != emptyDump:
			r.Violate(mc.Violation{Class: "rejected-proposal-changed-state", Msg: fmt.Sprintf("relayer/bitcoin stores differ from the same block without the proposal: %+v", c), Detail: c}, nil)
		case ok && dump == emptyDump:
			r.Violate(mc.Violation{Class: "accepted-proposal-without-effect", Msg: fmt.Sprintf("%+v", c), Detail: c}, nil)
		}
		if ok {
			r.Outcome("delivered-accept:" + c.Kind)
		} else {
			r.Outcome("delivered-reject:" + c.Kind)
		}
		x.Close()
	}
}
