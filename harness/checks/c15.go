package checks

import (
	"encoding/json"
	"fmt"
	"sort"
	"strings"
	"time"

	"cosmossdk.io/math"
	"github.com/ethereum/go-ethereum/core/types/goattypes"
	lockingtypes "github.com/goatnetwork/goat/x/locking/types"
	"verifharness/engb"
	"verifharness/mc"
)

// C15 – unlocked funds are released only after the unlock or exit delay, once.

type c15Pending struct {
	ID      uint64
	Release time.Time
	Seq     int
}

// c15Aux is the reference model carried along a history (immutable per state).
type c15Aux struct {
	Pending   []c15Pending // requested, not yet in the delivery queue
	InQueue   []uint64     // in the delivery queue, FIFO
	Delivered map[uint64]bool
	Seq       int
	// Thr is the reference's own record of every token's threshold: the genesis value, then the last
	// request of each block for that token (nil until the first block: filled from the genesis state)
	Thr map[string]math.Int
}

func (a *c15Aux) clone() *c15Aux {
	n := &c15Aux{Seq: a.Seq, Delivered: map[uint64]bool{}}
	if a.Thr != nil {
		n.Thr = map[string]math.Int{}
		for k, v := range a.Thr {
			n.Thr[k] = v
		}
	}
	n.Pending = append(n.Pending, a.Pending...)
	n.InQueue = append(n.InQueue, a.InQueue...)
	for k, v := range a.Delivered {
		n.Delivered[k] = v
	}
	return n
}

func c15Key(st *engb.LState) string {
	a, _ := st.Aux.(*c15Aux)
	if a == nil {
		return ""
	}
	var sb strings.Builder
	for _, p := range a.Pending {
		fmt.Fprintf(&sb, "%d@%d,", p.ID, int64(p.Release.Sub(st.Time)))
	}
	fmt.Fprintf(&sb, "|%v|%d", a.InQueue, len(a.Delivered))
	return sb.String()
}

func c15Configs(thorough bool) []lockCfg {
	cs := []lockCfg{
		{Name: "v0=3,v1=2", Powers: []uint64{3, 2}, MaxValidators: 2, Tk2Weight: 1, Tk2Threshold: 0, Candidates: 3},
	}
	// a zero-weight token that still has a threshold: dropping below it is exiting all the same
	cs = append(cs, lockCfg{Name: "v0=3-alone-max1-tk2-weightless-with-threshold", Powers: []uint64{3, 3}, MaxValidators: 1, Tk2Weight: 0, Tk2Threshold: 1, Candidates: 3})
	// block times with a sub-second part (every consensus time has one): a request made at s+0.7
	// matures at s+0.7+period, not at the whole second before it; fast blocks land inside that
	// last fraction of a second
	cs = append(cs, lockCfg{Name: "sub-second-block-times", Powers: []uint64{3, 2}, MaxValidators: 2, Tk2Weight: 1, Tk2Threshold: 0, Candidates: 3, SubSecond: true})
	// an exit period shorter than the unlock period: only if the chain's own validation admits it
	cs = append(cs, lockCfg{Name: "exit-period-shorter-than-unlock-period", Powers: []uint64{3, 2}, MaxValidators: 2, Tk2Weight: 1, Tk2Threshold: 0, Candidates: 3, ExitShorter: true})
	return cs
}

func c15Menu(c lockCfg, thorough bool) func(w *engb.World, st *engb.LState, depth int) []engb.LBlock {
	burst := func(n int) []engb.LOp {
		var ops []engb.LOp
		for i := 0; i < n; i++ {
			ops = append(ops, engb.LOp{Kind: "unlock", Val: 0, Token: 0, Amt: "1"})
		}
		return ops
	}
	ops := []engb.LOp{
		{Kind: "unlock", Val: 0, Token: 0, Amt: "1"},    // stays above the threshold: unlock period
		{Kind: "unlock", Val: 0, Token: 0, Amt: amt(2)}, // drops below the threshold: exiting
		{Kind: "unlock", Val: 1, Token: 0, Amt: "5"},    // v1 holds exactly the threshold: exiting
		{Kind: "lock", Val: 0, Token: 0, Amt: amt(1)},
		{Kind: "lock", Val: 0, Token: 1, Amt: "9"},
		{Kind: "unlock", Val: 0, Token: 1, Amt: "4"},
		{Kind: "threshold", Token: 0, Amt: amt(3)},
	}
	if c.SubSecond {
		sub := []engb.LBlock{
			{DtMs: 700, Ops: []engb.LOp{ops[0]}},
			{DtMs: 700, Ops: []engb.LOp{ops[1]}},
			{Dt: 1, DtMs: 1, Ops: []engb.LOp{ops[0]}},
			{Dt: 9, DtMs: 400}, {DtMs: 200}, {DtMs: 300}, {Dt: 10}, {Dt: 19, DtMs: 999}, {Dt: 1},
		}
		return func(w *engb.World, st *engb.LState, depth int) []engb.LBlock { return sub }
	}
	if c.ExitShorter {
		sub := []engb.LBlock{
			{Dt: 1, Ops: []engb.LOp{ops[0]}}, {Dt: 1, Ops: []engb.LOp{ops[1]}}, {Dt: 1, Ops: []engb.LOp{ops[2]}},
			{Dt: 1}, {Dt: 69}, {Dt: 70}, {Dt: 30}, {Dt: 100},
		}
		return func(w *engb.World, st *engb.LState, depth int) []engb.LBlock { return sub }
	}
	base := singleOpBlocks(ops, []int64{1, 9, 10, 20, 30})
	base = append(base,
		engb.LBlock{Dt: 1, Ops: burst(17)},
		engb.LBlock{Dt: 1, Ops: []engb.LOp{{Kind: "unlock", Val: 0, Token: 0, Amt: "1"}, {Kind: "unlock", Val: 0, Token: 0, Amt: amt(2)}, {Kind: "unlock", Val: 0, Token: 0, Amt: "7"}}},
		engb.LBlock{Dt: 1, Ops: []engb.LOp{{Kind: "unlock", Val: 0, Token: 0, Amt: "1"}, {Kind: "unlock", Val: 1, Token: 0, Amt: "1"}}},
		engb.LBlock{Dt: 1, Evidence: []engb.EvSpec{{Val: 1, AgeBlocks: 1, AgeSecs: 1}}, Ops: []engb.LOp{{Kind: "unlock", Val: 1, Token: 0, Amt: "3"}}},
		engb.LBlock{Dt: 1, Absent: []int{1}},
		// the same token's threshold requested twice in one block: the last request is the one in force
		engb.LBlock{Dt: 1, Ops: []engb.LOp{{Kind: "threshold", Token: 0, Amt: amt(1)}, {Kind: "threshold", Token: 0, Amt: amt(3)}}},
		engb.LBlock{Dt: 1, Ops: []engb.LOp{{Kind: "threshold", Token: 0, Amt: amt(3)}, {Kind: "threshold", Token: 0, Amt: amt(1)}}},
	)
	if thorough {
		base = append(base,
			engb.LBlock{Dt: 11, Ops: []engb.LOp{{Kind: "unlock", Val: 0, Token: 0, Amt: "2"}}},
			engb.LBlock{Dt: 1, Ops: []engb.LOp{{Kind: "create", Val: 2}}},
			engb.LBlock{Dt: 1, Ops: []engb.LOp{{Kind: "lock", Val: 2, Token: 0, Amt: amt(2)}}},
			engb.LBlock{Dt: 1, Ops: []engb.LOp{{Kind: "unlock", Val: 2, Token: 0, Amt: "1"}}},
		)
	}
	// the chain restarted from an exported state in mid-history: for the reference model a no-op
	base = append(base, engb.LBlock{Dt: 1, Reimport: true})
	return func(w *engb.World, st *engb.LState, depth int) []engb.LBlock { return base }
}

func queueIDs(q []*lockingtypes.Unlock) []uint64 {
	var ids []uint64
	for _, u := range q {
		ids = append(ids, u.Id)
	}
	return ids
}

func c15Monitor(r *mc.Run, c lockCfg) engb.Monitor {
	params := c.genesis().LockingParams
	return func(path []engb.LBlock, pre, next *engb.LState, res *engb.StepResult) {
		viol := func(class, msg string) {
			p := append([]engb.LBlock{}, path...)
			r.Violate(mc.Violation{Class: class, Msg: msg + " | history: " + fmt.Sprint(pathStrings(p)), Detail: lockDetail{Cfg: c, Path: p}}, nil)
		}
		if next == nil {
			r.Outcome("block-not-completed")
			return
		}
		aux, _ := pre.Aux.(*c15Aux)
		if aux == nil {
			aux = &c15Aux{Delivered: map[uint64]bool{}}
		}
		aux = aux.clone()
		next.Aux = aux
		mid, post := res.AfterBegin, res.Post
		now := post.Time
		if aux.Thr == nil {
			aux.Thr = map[string]math.Int{}
			for d, tk := range res.Pre.Tokens {
				aux.Thr[d] = tk.Threshold
			}
		}
		if res.TxErr == nil {
			for _, u := range res.Reqs.UpdateThresholds {
				aux.Thr[lockingtypes.TokenDenom(u.Token)] = math.NewIntFromBigInt(u.Threshold) // the last request for a token is the one in force
			}
		}
		for d, tk := range post.Tokens {
			if want, ok := aux.Thr[d]; ok && !tk.Threshold.Equal(want) {
				viol("threshold-in-force-is-not-the-last-one-requested", fmt.Sprintf("token %s: stored threshold %s, last requested %s", d, tk.Threshold, want))
			}
		}

		// 1. which unlocks reached the delivery queue in this block (wherever in the block the
		// maturity sweep runs): delivered ++ remaining queue must extend the previous queue
		var deliv []uint64
		if res.TxErr == nil {
			for _, tx := range res.Delivered {
				if cu, ok := tx.Inner.(*goattypes.CompleteUnlockTx); ok {
					deliv = append(deliv, cu.Id)
				}
			}
		}
		preQ := queueIDs(res.Pre.Queue.Unlocks)
		allQ := append(append([]uint64{}, deliv...), queueIDs(post.Queue.Unlocks)...)
		if len(allQ) < len(preQ) {
			viol("delivery-queue-lost-entries", fmt.Sprintf("%v -> delivered %v + queue %v", preQ, deliv, queueIDs(post.Queue.Unlocks)))
			return
		}
		for i := range preQ {
			if preQ[i] != allQ[i] {
				viol("delivery-queue-reordered", fmt.Sprintf("%v -> %v", preQ, allQ))
				return
			}
		}
		matured := allQ[len(preQ):]
		_ = mid
		pend := map[uint64]c15Pending{}
		for _, p := range aux.Pending {
			pend[p.ID] = p
		}
		var want []c15Pending
		for _, p := range aux.Pending {
			if !p.Release.After(now) {
				want = append(want, p)
			}
		}
		sort.SliceStable(want, func(i, j int) bool {
			if !want[i].Release.Equal(want[j].Release) {
				return want[i].Release.Before(want[j].Release)
			}
			return want[i].Seq < want[j].Seq
		})
		for _, id := range matured {
			p, ok := pend[id]
			if !ok {
				viol("unknown-or-repeated-unlock-matured", fmt.Sprintf("id %d reaches the delivery queue but is not pending", id))
				continue
			}
			if p.Release.After(now) {
				viol("unlock-released-early", fmt.Sprintf("id %d released at %ds, earliest allowed %ds after genesis", id, int64(now.Sub(c.genesis().Time).Seconds()), int64(p.Release.Sub(c.genesis().Time).Seconds())))
			}
		}
		if len(matured) == len(want) {
			for i := range want {
				if matured[i] != want[i].ID {
					viol("unlocks-not-in-maturity-order", fmt.Sprintf("matured %v, expected order %v", matured, want))
					break
				}
			}
			if len(matured) > 0 {
				r.Outcome(fmt.Sprintf("matured-%d", min(len(matured), 3)))
			}
		} else if len(matured) < len(want) {
			viol("unlock-not-released-when-due", fmt.Sprintf("due %v but matured %v at block time", want, matured))
		}
		var still []c15Pending
		isMatured := map[uint64]bool{}
		for _, id := range matured {
			isMatured[id] = true
		}
		for _, p := range aux.Pending {
			if !isMatured[p.ID] {
				still = append(still, p)
			}
		}
		aux.Pending = still
		aux.InQueue = append(aux.InQueue, matured...)

		// 2. hand-over: FIFO, at most 16, once
		if res.TxErr == nil {
			if len(deliv) > 16 {
				viol("more-than-16-unlocks-delivered", fmt.Sprint(deliv))
			}
			if len(deliv) > len(aux.InQueue) || fmt.Sprint(deliv) != fmt.Sprint(aux.InQueue[:len(deliv)]) {
				viol("unlock-delivery-not-fifo", fmt.Sprintf("delivered %v, queue %v", deliv, aux.InQueue))
			}
			for _, id := range deliv {
				if aux.Delivered[id] {
					viol("unlock-delivered-twice", fmt.Sprintf("id %d", id))
				}
				aux.Delivered[id] = true
			}
			if len(deliv) <= len(aux.InQueue) {
				aux.InQueue = append([]uint64{}, aux.InQueue[len(deliv):]...)
			}
			if len(deliv) > 0 {
				r.Outcome(fmt.Sprintf("delivered-%d", min(len(deliv), 17)))
			}

			// 3. new requests: reference exiting rule and release time
			hold := map[string]math.Int{}
			get := func(a, d string) math.Int {
				if h, ok := hold[a+"|"+d]; ok {
					return h
				}
				h := math.ZeroInt()
				if v, ok := mid.Vals[a]; ok {
					h = v.Locking.AmountOf(d)
				}
				return h
			}
			for _, l := range res.Reqs.Locks {
				a, d := string(l.Validator.Bytes()), lockingtypes.TokenDenom(l.Token)
				hold[a+"|"+d] = get(a, d).Add(math.NewIntFromBigInt(l.Amount))
			}
			gone := map[string]bool{} // became inactive earlier in this batch
			for _, u := range res.Reqs.Unlocks {
				a, d := string(u.Validator.Bytes()), lockingtypes.TokenDenom(u.Token)
				h := get(a, d)
				am := math.NewIntFromBigInt(u.Amount)
				if am.GT(h) {
					am = h
				}
				remain := h.Sub(am)
				hold[a+"|"+d] = remain
				st := mid.Vals[a].Status
				exiting := st == lockingtypes.Inactive || st == lockingtypes.Tombstoned || gone[a] || remain.LT(aux.Thr[d])
				dur := params.UnlockDuration
				if exiting {
					// "or the longer exit period": never less than the unlock period
					dur = max(params.ExitingDuration, params.UnlockDuration)
					gone[a] = true
					r.Outcome("exiting-unlock")
				} else {
					r.Outcome("plain-unlock")
				}
				aux.Pending = append(aux.Pending, c15Pending{ID: u.Id, Release: now.Add(dur), Seq: aux.Seq})
				aux.Seq++
				if e := findUnlock(post, u.Id); e != nil {
					if !am.IsZero() && e.Amount.IsZero() {
						viol("remaining-funds-not-withdrawable", fmt.Sprintf("unlock id %d of %s with holding %s released 0", u.Id, u.Amount, h))
					}
				}
			}
			// 5. exiting validators leave the candidate set immediately
			for a := range gone {
				v := post.Vals[a]
				if v.Power != 0 {
					viol("exiting-validator-keeps-power", fmt.Sprintf("validator %x power %d", a, v.Power))
				}
				if v.Status == lockingtypes.Active || v.Status == lockingtypes.Pending || v.Status == lockingtypes.Downgrade {
					viol("exiting-validator-keeps-candidate-status", fmt.Sprintf("validator %x status %s", a, v.Status))
				}
				for _, re := range post.Ranking {
					if re.Addr == a {
						viol("exiting-validator-in-ranking", fmt.Sprintf("validator %x", a))
					}
				}
				for k := range post.LockIdx {
					if strings.HasSuffix(k, "|"+a) {
						viol("exiting-validator-in-locking-index", fmt.Sprintf("validator %x key %x", a, k))
					}
				}
			}
		}

		// 4. id multiset conservation over {time queue, delivery queue, delivered}
		where := map[uint64]int{}
		for _, e := range post.Unlocks {
			for _, u := range e.U {
				where[u.Id]++
			}
		}
		for _, u := range post.Queue.Unlocks {
			where[u.Id]++
		}
		for id := range aux.Delivered {
			where[id]++
		}
		all := map[uint64]bool{}
		for _, p := range aux.Pending {
			all[p.ID] = true
		}
		for _, id := range aux.InQueue {
			all[id] = true
		}
		for id := range aux.Delivered {
			all[id] = true
		}
		for id := range all {
			if where[id] != 1 {
				viol("unlock-id-not-exactly-once", fmt.Sprintf("id %d found %d times across queues+delivered", id, where[id]))
			}
		}
		for id, n := range where {
			if !all[id] {
				viol("invented-unlock-id", fmt.Sprintf("id %d (x%d) was never requested", id, n))
			}
		}
	}
}

func runC15(r *mc.Run) {
	depth := 5
	if r.Thorough() {
		depth = 7
		r.SetBudget(10 * 60 * 1e9)
	} else {
		r.SetBudget(300 * 1e9)
	}
	r.Bounds["depth_blocks"] = depth
	r.Rule = "DFS over lock/unlock/time histories (unlock 10s, exit 30s; dt in {1,9,10,20,30}; bursts of 17; several unlocks with equal timestamps; tombstoned and below-threshold validators); oracle = reference release times, arrival in the delivery queue exactly at the first block with time >= release, maturity order, FIFO hand-over <= 16, id multiset conservation, exiting validators leave the candidate set"
	r.Assumptions = []string{"block times strictly increase (CometBFT rule); equal timestamps are explored as several requests in one block"}
	completed := depth
	for _, c := range c15Configs(r.Thorough()) {
		if err := c.admitted(); err != nil {
			r.Outcome("configuration-refused-by-the-chain's-parameter-validation:" + c.Name)
			continue
		}
		e := &engb.Explorer{Run: r, NewRoot: c.newRoot, Menu: c15Menu(c, r.Thorough()), Monitor: c15Monitor(r, c), Depth: depth, ConformanceDepth: 2, WantMid: true, ExtraKey: c15Key}
		if err := e.Explore(); err != nil {
			panic(err)
		}
		runConformance(r, c, e)
		if e.Completed < completed {
			completed = e.Completed
		}
		m := c15Menu(c, r.Thorough())(nil, nil, 0)
		r.Sample(map[string]any{"config": c, "menu_size": len(m), "example_blocks": []string{m[6].String(), m[len(m)-4].String()}})
	}
	r.Bounds["depth_completed"] = completed
}

func init() {
	register(&Check{ID: "C15", Run: runC15, Replay: func(d json.RawMessage) (bool, string) { return lockReplay(d, c15Monitor, true) }})
}
