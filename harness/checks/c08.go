package checks

import (
	"bytes"
	"encoding/json"
	"fmt"
	"time"

	abci "github.com/cometbft/cometbft/abci/types"
	sdk "github.com/cosmos/cosmos-sdk/types"
	"github.com/ethereum/go-ethereum/core/types/goattypes"
	bitcointypes "github.com/goatnetwork/goat/x/bitcoin/types"
	goatmodtypes "github.com/goatnetwork/goat/x/goat/types"
	"verifharness/enga"
	"verifharness/mc"
	"verifharness/sim"
)

// C08 – honest proposals are always accepted; accepted proposals are well-formed.

func c08Cfg() *sim.GenesisCfg {
	g := sim.DefaultCfg(2, 1)
	for i := range g.Vals {
		g.Vals[i].Power = 5
		g.Vals[i].Locking = sdk.NewCoins(sdk.NewCoin("btc", sim.Theta.MulRaw(5)))
	}
	g.LockingParams.UnlockDuration = 2e9
	g.LockingParams.ExitingDuration = 5e9
	g.RelayerParams.ElectingPeriod = 6e9
	g.RelayerParams.AcceptProposerTimeout = 3e9
	return g
}

// mempool content classes
var c08Pools = []string{"empty", "1-valid", "15-valid", "20-valid", "valid+stale+foreign", "foreign-only", "timeout-running-out", "stale-first"}

// fillMempool inserts the class's transactions and returns them in insertion order.
func c08FillMempool(w *enga.World, class string) [][]byte {
	rel, _ := w.Relayer()
	var proposer, other sim.Member
	for _, m := range w.Members {
		if m.AddrStr() == rel.Proposer {
			proposer = m
		} else {
			other = m
		}
	}
	msgOf := func() sdk.Msg {
		m, _ := w.BuildMsg(enga.Event{Kind: "tx:deposits", N: 1})
		if m == nil {
			m = &bitcointypes.MsgApproveCancellation{Proposer: rel.Proposer, Id: []uint64{999}}
		}
		return m
	}
	num, seq, _ := w.N.Account(w.N.Ctx(), proposer.Addr())
	onum, oseq, _ := w.N.Account(w.N.Ctx(), other.Addr())
	sign := func(k sim.Key, n, s uint64) []byte {
		m := msgOf()
		if k.AddrStr() != proposer.AddrStr() {
			// a correctly signed transaction of a member that is not the proposer: nothing but the
			// relayer-proposer rule stands between it and the block
			m = &bitcointypes.MsgApproveCancellation{Proposer: k.AddrStr(), Id: []uint64{999}}
		}
		tx, err := sim.SignTx(w.N.TxCfg, w.N.Cfg.ChainID, k, n, s, 0, "", m)
		must(err)
		return tx
	}
	var txs [][]byte
	valid := func(n int, from uint64) {
		for i := 0; i < n; i++ {
			txs = append(txs, sign(proposer.Key, num, from+uint64(i)))
		}
	}
	switch class {
	case "empty":
	case "1-valid":
		valid(1, seq)
	case "15-valid":
		valid(15, seq)
	case "20-valid":
		valid(20, seq)
	case "valid+stale+foreign":
		if seq > 0 {
			txs = append(txs, sign(proposer.Key, num, seq-1))
		}
		valid(2, seq)
		txs = append(txs, sign(other.Key, onum, oseq)) // a voter that is not the proposer
	case "foreign-only":
		txs = append(txs, sign(other.Key, onum, oseq), sign(other.Key, onum, oseq+1))
	case "timeout-running-out":
		// admitted while its timeout height was still ahead; expired for the block being built
		tx, err := sim.SignTx(w.N.TxCfg, w.N.Cfg.ChainID, proposer.Key, num, seq, uint64(w.N.Height), "", msgOf())
		must(err)
		txs = append(txs, tx)
	case "stale-first":
		txs = append(txs, sign(proposer.Key, num, seq+5)) // nonce gap: not executable
		valid(1, seq)
	}
	for _, tx := range txs {
		must(w.N.InsertMempool(tx))
	}
	return txs
}

// c08Config names the genesis configuration c08Honest is running on when it is not the default one.
var c08Config string

// c08Honest: the real PrepareProposal output is accepted by a second replica, has at most
// 16 transactions, and its execution-block message succeeds when finalised.
func c08Honest(r *mc.Run, w *enga.World, path []enga.ABlock) {
	for _, class := range c08Pools {
		a, err := w.Fork()
		must(err)
		b, err := w.Fork()
		must(err)
		viol := func(cls, msg string) {
			var det any = engaDetail{Path: path, Note: "mempool " + class}
			if c08Config != "" {
				// another genesis configuration: the tree's re-check (which replays the path on the default one) does not apply
				cls += ":" + c08Config
				det = map[string]any{"configuration": c08Config, "path": path, "note": "mempool " + class}
			}
			r.Violate(mc.Violation{Class: cls, Msg: fmt.Sprintf("%s | mempool %s | history %v %s", msg, class, aPath(path), c08Config), Detail: det}, nil)
		}
		pool := c08FillMempool(a, class)
		blk := &sim.Block{TimeDelta: time.Second, MempoolTxs: pool}
		pp, err := a.N.Prepare(blk)
		r.Transitions.Add(1)
		r.Validated.Add(1)
		if err != nil {
			viol("prepare-fails", err.Error())
			a.Close()
			b.Close()
			continue
		}
		if len(pp.Txs) > 16 {
			viol("more-than-16-transactions-proposed", fmt.Sprintf("%d transactions", len(pp.Txs)))
		}
		pr, err := b.N.Process(blk, pp.Txs)
		if err != nil || pr.Status != abci.ResponseProcessProposal_ACCEPT {
			viol("honest-proposal-rejected", fmt.Sprintf("second replica: status %v err %v (%d txs)", pr, err, len(pp.Txs)))
		} else {
			fr, err := b.N.Finalize(blk, pp.Txs)
			if err != nil {
				viol("honest-proposal-fails-finalize", err.Error())
			} else if fr.TxResults[0].Code != 0 {
				viol("honest-execution-block-message-fails", fr.TxResults[0].Log)
			} else {
				r.Outcome(fmt.Sprintf("honest-accepted:%s:%d-txs", class, len(pp.Txs)))
			}
		}
		a.Close()
		b.Close()
	}
}

// c08Sizes: execution blocks of the sizes a well-behaved engine can build within its gas limit
// (data-heavy transactions of up to 128 KiB each), up to what a consensus block of the chain's own
// configuration (Block.MaxBytes = 6,348,800 in `goatd modgen init` and the shipped genesis files)
// can carry. The honest proposal is accepted by a second replica and its execution-block message
// succeeds when finalised, also in the block after a large one (the previous head is read back).
var c08Sizes = []struct {
	name string
	n    int // 128-KiB transactions
}{{"512KiB", 4}, {"1MiB", 8}, {"2.5MiB", 20}, {"3MiB", 24}, {"4MiB", 32}, {"6MB-consensus-block-limit", 47}}

func c08LargeBlocks(r *mc.Run, w *enga.World, path []enga.ABlock) {
	for _, sz := range c08Sizes {
		a, err := w.Fork()
		must(err)
		b, err := w.Fork()
		must(err)
		viol := func(cls, msg string) {
			r.Violate(mc.Violation{Class: cls + ":" + sz.name, Msg: fmt.Sprintf("%s | execution block with %d data-heavy transactions of 128 KiB | history %v", msg, sz.n, aPath(path)), Detail: engaDetail{Path: path, Note: "execution block size " + sz.name}}, nil)
		}
		var user [][]byte
		for i := 0; i < sz.n; i++ {
			t := make([]byte, 128<<10)
			t[0], t[1] = 0x02, byte(i)
			user = append(user, t)
		}
		for round := 0; round < 2; round++ {
			a.N.EL.UserTxs, b.N.EL.UserTxs = user, user
			blk := &sim.Block{TimeDelta: time.Second}
			pp, err := a.N.Prepare(blk)
			r.Transitions.Add(1)
			r.Validated.Add(1)
			if err != nil {
				viol("prepare-fails", err.Error())
				break
			}
			pr, err := b.N.Process(blk, pp.Txs)
			if err != nil || pr.Status != abci.ResponseProcessProposal_ACCEPT {
				viol("honest-proposal-rejected", fmt.Sprintf("second replica: status %v err %v | %s", pr, err, b.N.LoggedErrors()))
				break
			}
			fr, err := b.N.Finalize(blk, pp.Txs)
			if err != nil {
				viol("honest-proposal-fails-finalize", err.Error())
				break
			}
			if fr.TxResults[0].Code != 0 {
				viol("honest-execution-block-message-fails", fmt.Sprintf("round %d: gas used %d of %d: %s", round, fr.TxResults[0].GasUsed, fr.TxResults[0].GasWanted, fr.TxResults[0].Log))
				break
			}
			must(b.N.Commit(blk, pp.Txs, fr))
			// the proposer's replica follows
			if _, err := a.N.Process(blk, pp.Txs); err != nil {
				viol("proposer-cannot-follow", err.Error())
				break
			}
			fa, err := a.N.Finalize(blk, pp.Txs)
			must(err)
			must(a.N.Commit(blk, pp.Txs, fa))
			r.Outcome(fmt.Sprintf("large-block-applied:%s:gas-%dM", sz.name, fr.TxResults[0].GasUsed/1e6))
		}
		a.Close()
		b.Close()
	}
}

// c08ManyRequests: execution blocks with as many requests of one kind as the engine's gas limit
// lets one block hold (about a thousand contract calls). The honest block is applied and so are
// the blocks after it (queues filled by one block are read and rewritten by the following ones).
var c08Bursts = []enga.Event{{Kind: "req:unlock", N: 400}, {Kind: "req:unlock", N: 1000}, {Kind: "req:claim", N: 1000}, {Kind: "req:withdraw", N: 1000}}

func c08ManyRequests(r *mc.Run, w *enga.World, path []enga.ABlock) {
	for _, ev := range c08Bursts {
		x, err := w.Fork()
		must(err)
		for i, b := range []enga.ABlock{{Events: []enga.Event{ev}}, {}, {Dt: 7}} {
			rr := x.Run(b)
			r.Transitions.Add(1)
			r.Validated.Add(1)
			cls := ""
			msg := ""
			switch {
			case rr.Err != nil && rr.Err.Error() == sim.ErrEmptySet.Error():
			case rr.Err != nil:
				cls, msg = "honest-block-fails:"+rr.Stage, rr.Err.Error()
			case !rr.EthOK:
				cls, msg = "honest-execution-block-message-fails", fmt.Sprintf("gas used %d of %d: %s", rr.Finalize.TxResults[0].GasUsed, rr.Finalize.TxResults[0].GasWanted, rr.Finalize.TxResults[0].Log)
			}
			if cls != "" {
				r.Violate(mc.Violation{Class: fmt.Sprintf("%s:%d-%s-requests", cls, ev.N, ev.Kind[4:]), Msg: fmt.Sprintf("%s | block %d after an execution block with %d %s requests | history %v", msg, i, ev.N, ev.Kind[4:], aPath(path)), Detail: engaDetail{Path: path, Note: fmt.Sprintf("%d %s requests in one execution block", ev.N, ev.Kind)}}, nil)
				break
			}
			if i == 0 {
				r.Outcome(fmt.Sprintf("request-burst-applied:%d-%s", ev.N, ev.Kind[4:]))
			}
		}
		x.Close()
	}
}

type propMut struct {
	name  string
	build func(w *enga.World) ([][]byte, bool) // returns the proposal; false if not applicable in this state
}

func c08Mutations() []propMut {
	payloadMut := func(name string, f func(p *goatmodtypes.ExecutionPayload), rehash bool) propMut {
		return propMut{name, func(w *enga.World) ([][]byte, bool) {
			tx, _, err := w.N.BuildEthBlockTx(sim.EthBlockOpts{MutatePayload: f, Rehash: rehash})
			must(err)
			return [][]byte{tx}, true
		}}
	}
	relayerTx := func(w *enga.World) []byte {
		rel, _ := w.Relayer()
		for _, m := range w.Members {
			if m.AddrStr() == rel.Proposer {
				return w.N.SignFor(m.Key, 0, 0, &bitcointypes.MsgApproveCancellation{Proposer: rel.Proposer, Id: []uint64{999}})
			}
		}
		panic("no proposer")
	}
	gasReq := func(n int) [][]byte {
		var lk goattypes.LockingRequests
		for i := 0; i < n; i++ {
			lk.Gas = append(lk.Gas, goattypes.NewGasRequest(1, bigZero))
		}
		return lk.Encode()
	}
	return []propMut{
		{"no-transactions", func(w *enga.World) ([][]byte, bool) { return [][]byte{}, true }},
		{"block-message-missing", func(w *enga.World) ([][]byte, bool) { return [][]byte{relayerTx(w)}, true }},
		{"block-message-duplicated", func(w *enga.World) ([][]byte, bool) {
			t1, _, err := w.N.BuildEthBlockTx(sim.EthBlockOpts{})
			must(err)
			t2, _, err := w.N.BuildEthBlockTx(sim.EthBlockOpts{SeqOffset: 1})
			must(err)
			return [][]byte{t1, t2}, true
		}},
		{"two-block-messages-in-a-later-transaction", func(w *enga.World) ([][]byte, bool) {
			// a well-formed first transaction, then a second one of the same author that carries two
			// more execution-block messages (next account sequence, timeout = this height)
			t1, payload, err := w.N.BuildEthBlockTx(sim.EthBlockOpts{})
			must(err)
			key := w.N.Cfg.Vals[w.N.Cfg.NodeVal].Key
			m1 := &goatmodtypes.MsgNewEthBlock{Proposer: key.AddrStr(), Payload: payload}
			m2 := &goatmodtypes.MsgNewEthBlock{Proposer: key.AddrStr(), Payload: payload}
			num, seq, _ := w.N.Account(w.N.Ctx(), key.Addr())
			t2, err := sim.SignTx(w.N.TxCfg, w.N.Cfg.ChainID, key, num, seq+1, uint64(w.N.Height+1), "", m1, m2)
			must(err)
			return [][]byte{t1, t2}, true
		}},
		{"block-message-after-a-relayer-message-in-a-later-transaction", func(w *enga.World) ([][]byte, bool) {
			t1, payload, err := w.N.BuildEthBlockTx(sim.EthBlockOpts{})
			must(err)
			rel, _ := w.Relayer()
			for _, m := range w.Members {
				if m.AddrStr() == rel.Proposer {
					num, seq, _ := w.N.Account(w.N.Ctx(), m.Key.Addr())
					t2, err := sim.SignTx(w.N.TxCfg, w.N.Cfg.ChainID, m.Key, num, seq, uint64(w.N.Height+1), "",
						&bitcointypes.MsgApproveCancellation{Proposer: rel.Proposer, Id: []uint64{999}}, &goatmodtypes.MsgNewEthBlock{Proposer: rel.Proposer, Payload: payload})
					must(err)
					return [][]byte{t1, t2}, true
				}
			}
			panic("no proposer")
		}},
		{"block-message-second", func(w *enga.World) ([][]byte, bool) {
			t1, _, err := w.N.BuildEthBlockTx(sim.EthBlockOpts{})
			must(err)
			return [][]byte{relayerTx(w), t1}, true
		}},
		{"block-message-shares-its-transaction", func(w *enga.World) ([][]byte, bool) {
			_, payload, err := w.N.BuildEthBlockTx(sim.EthBlockOpts{})
			must(err)
			key := w.N.Cfg.Vals[w.N.Cfg.NodeVal].Key
			m1 := &goatmodtypes.MsgNewEthBlock{Proposer: key.AddrStr(), Payload: payload}
			m2 := &goatmodtypes.MsgNewEthBlock{Proposer: key.AddrStr(), Payload: payload}
			num, seq, _ := w.N.Account(w.N.Ctx(), key.Addr())
			tx, err := sim.SignTx(w.N.TxCfg, w.N.Cfg.ChainID, key, num, seq, uint64(w.N.Height+1), "", m1, m2)
			must(err)
			return [][]byte{tx}, true
		}},
		{"authored-by-other-validator", func(w *enga.World) ([][]byte, bool) {
			other := w.N.Cfg.Vals[1].Key
			tx, _, err := w.N.BuildEthBlockTx(sim.EthBlockOpts{Signer: &other, Proposer: other.Addr()})
			must(err)
			return [][]byte{tx}, true
		}},
		{"signature-forged-under-the-authors-key", func(w *enga.World) ([][]byte, bool) {
			// names the proposer's account and public key; only the signature bytes are another key's
			forger := sim.NewKey("forger")
			tx, _, err := w.N.BuildEthBlockTx(sim.EthBlockOpts{ForgeWith: &forger})
			must(err)
			return [][]byte{tx}, true
		}},
		{"signed-by-other-key", func(w *enga.World) ([][]byte, bool) {
			other := w.N.Cfg.Vals[1].Key
			tx, _, err := w.N.BuildEthBlockTx(sim.EthBlockOpts{Signer: &other})
			must(err)
			return [][]byte{tx}, true
		}},
		payloadMut("wrong-fee-recipient", func(p *goatmodtypes.ExecutionPayload) { p.FeeRecipient = bytes.Repeat([]byte{9}, 20) }, true),
		payloadMut("wrong-parent-hash", func(p *goatmodtypes.ExecutionPayload) { p.ParentHash = bytes.Repeat([]byte{7}, 32) }, true),
		payloadMut("number+1", func(p *goatmodtypes.ExecutionPayload) { p.BlockNumber++ }, true),
		payloadMut("number-1", func(p *goatmodtypes.ExecutionPayload) { p.BlockNumber-- }, true),
		payloadMut("wrong-beacon-root", func(p *goatmodtypes.ExecutionPayload) { p.BeaconRoot = bytes.Repeat([]byte{5}, 32) }, true),
		// non-canonical encodings of the fields the statement names: the execution layer only ever
		// sees the last 32 / 20 bytes, so it answers VALID - the proposal still does not carry the
		// recorded beacon root / parent / proposer
		payloadMut("beacon-root-33-bytes", func(p *goatmodtypes.ExecutionPayload) { p.BeaconRoot = append([]byte{1}, p.BeaconRoot...) }, false),
		payloadMut("beacon-root-64-bytes", func(p *goatmodtypes.ExecutionPayload) {
			p.BeaconRoot = append(bytes.Repeat([]byte{0}, 32), p.BeaconRoot...)
		}, false),
		payloadMut("parent-hash-33-bytes", func(p *goatmodtypes.ExecutionPayload) { p.ParentHash = append([]byte{1}, p.ParentHash...) }, false),
		payloadMut("fee-recipient-21-bytes", func(p *goatmodtypes.ExecutionPayload) { p.FeeRecipient = append([]byte{1}, p.FeeRecipient...) }, false),
		payloadMut("fee-recipient-32-bytes", func(p *goatmodtypes.ExecutionPayload) {
			p.FeeRecipient = append(bytes.Repeat([]byte{0}, 12), p.FeeRecipient...)
		}, false),
		payloadMut("zero-gas-requests", func(p *goatmodtypes.ExecutionPayload) { p.Requests = nil }, true),
		payloadMut("two-gas-requests", func(p *goatmodtypes.ExecutionPayload) { p.Requests = gasReq(2) }, true),
		payloadMut("undecodable-requests", func(p *goatmodtypes.ExecutionPayload) { p.Requests = [][]byte{{0x63, 1, 2, 3}} }, true),
		payloadMut("short-request", func(p *goatmodtypes.ExecutionPayload) { p.Requests = append(p.Requests, []byte{}) }, true),
		payloadMut("future-timestamp", func(p *goatmodtypes.ExecutionPayload) { p.Timestamp = uint64(time.Now().Unix()) + 3600 }, true),
		payloadMut("extra-data-32-bytes", func(p *goatmodtypes.ExecutionPayload) { p.ExtraData = p.ExtraData[:32] }, true),
		payloadMut("invented-system-tx", func(p *goatmodtypes.ExecutionPayload) {
			raw, _ := bitcointypes.NewRejectEthTx(4242, 77).MarshalBinary()
			p.Transactions = append([][]byte{raw}, p.Transactions...)
			p.ExtraData[0]++
		}, true),
		{"due-system-txs-omitted", func(w *enga.World) ([][]byte, bool) {
			ctx, _ := w.N.Ctx().CacheContext()
			due, err := w.N.App.GoatKeeper.Dequeue(ctx)
			must(err)
			if len(due) == 0 {
				return nil, false
			}
			tx, _, err := w.N.BuildEthBlockTx(sim.EthBlockOpts{Rehash: true, MutatePayload: func(p *goatmodtypes.ExecutionPayload) {
				p.Transactions = p.Transactions[int(p.ExtraData[0]):]
				p.ExtraData[0] = 0
			}})
			must(err)
			return [][]byte{tx}, true
		}},
		{"one-due-system-tx-omitted", func(w *enga.World) ([][]byte, bool) {
			ctx, _ := w.N.Ctx().CacheContext()
			due, err := w.N.App.GoatKeeper.Dequeue(ctx)
			must(err)
			if len(due) < 2 {
				return nil, false
			}
			tx, _, err := w.N.BuildEthBlockTx(sim.EthBlockOpts{Rehash: true, MutatePayload: func(p *goatmodtypes.ExecutionPayload) {
				p.Transactions = p.Transactions[1:]
				p.ExtraData[0]--
			}})
			must(err)
			return [][]byte{tx}, true
		}},
		payloadMut("block-hash-not-matching", func(p *goatmodtypes.ExecutionPayload) { p.GasUsed += 5 }, false), // engine answers INVALID
		{"other-content-under-the-hash-this-instance-just-verified", func(w *enga.World) ([][]byte, bool) {
			// round 0: the well-formed proposal is verified (engine: VALID) by this very instance;
			// round 1: another payload claims the same block hash - only the engine can tell
			t1, _, err := w.N.BuildEthBlockTx(sim.EthBlockOpts{})
			must(err)
			if pr, err := w.N.Process(&sim.Block{TimeDelta: time.Second}, [][]byte{t1}); err != nil || pr.Status != abci.ResponseProcessProposal_ACCEPT {
				return nil, false
			}
			t2, _, err := w.N.BuildEthBlockTx(sim.EthBlockOpts{MutatePayload: func(p *goatmodtypes.ExecutionPayload) { p.GasUsed += 5; p.StateRoot = bytes.Repeat([]byte{3}, 32) }})
			must(err)
			return [][]byte{t2}, true
		}},
		{"timeout-height+1", func(w *enga.World) ([][]byte, bool) {
			th := uint64(w.N.Height + 2)
			tx, _, err := w.N.BuildEthBlockTx(sim.EthBlockOpts{TimeoutHeight: &th})
			must(err)
			return [][]byte{tx}, true
		}},
		{"timeout-height-0", func(w *enga.World) ([][]byte, bool) {
			th := uint64(0)
			tx, _, err := w.N.BuildEthBlockTx(sim.EthBlockOpts{TimeoutHeight: &th})
			must(err)
			return [][]byte{tx}, true
		}},
		{"memo", func(w *enga.World) ([][]byte, bool) {
			tx, _, err := w.N.BuildEthBlockTx(sim.EthBlockOpts{Memo: "x"})
			must(err)
			return [][]byte{tx}, true
		}},
		{"17-transactions", func(w *enga.World) ([][]byte, bool) {
			t1, _, err := w.N.BuildEthBlockTx(sim.EthBlockOpts{})
			must(err)
			txs := [][]byte{t1}
			rel, _ := w.Relayer()
			for _, m := range w.Members {
				if m.AddrStr() == rel.Proposer {
					for i := uint64(0); i < 16; i++ {
						txs = append(txs, w.N.SignFor(m.Key, i, 0, &bitcointypes.MsgApproveCancellation{Proposer: rel.Proposer, Id: []uint64{999}}))
					}
				}
			}
			return txs, true
		}},
		{"nil-payload", func(w *enga.World) ([][]byte, bool) {
			key := w.N.Cfg.Vals[w.N.Cfg.NodeVal].Key
			num, seq, _ := w.N.Account(w.N.Ctx(), key.Addr())
			tx, err := sim.SignTx(w.N.TxCfg, w.N.Cfg.ChainID, key, num, seq, uint64(w.N.Height+1), "", &goatmodtypes.MsgNewEthBlock{Proposer: key.AddrStr()})
			must(err)
			return [][]byte{tx}, true
		}},
	}
}

var bigZero = newBig(0)

var c08MustNotMoveHead = map[string]bool{"block-message-missing": true, "block-message-shares-its-transaction": true, "authored-by-other-validator": true,
	"signed-by-other-key": true, "signature-forged-under-the-authors-key": true, "wrong-fee-recipient": true, "wrong-parent-hash": true, "number+1": true, "number-1": true, "wrong-beacon-root": true, "beacon-root-33-bytes": true, "beacon-root-64-bytes": true, "parent-hash-33-bytes": true, "fee-recipient-21-bytes": true, "fee-recipient-32-bytes": true,
	"due-system-txs-omitted": true, "one-due-system-tx-omitted": true, "zero-gas-requests": true, "two-gas-requests": true, "undecodable-requests": true, "short-request": true, "invented-system-tx": true,
	"extra-data-32-bytes": true, "timeout-height+1": true, "timeout-height-0": true, "memo": true, "nil-payload": true}

// c08Converse: every single mutation of a well-formed proposal is rejected by
// ProcessProposal; forced into FinalizeBlock, the head does not move.
func c08Converse(r *mc.Run, w *enga.World, path []enga.ABlock) {
	pre := w.Head()
	for _, m := range c08Mutations() {
		x, err := w.Fork()
		must(err)
		txs, ok := m.build(x)
		if !ok {
			x.Close()
			continue
		}
		viol := func(cls, msg string) {
			r.Violate(mc.Violation{Class: cls, Msg: fmt.Sprintf("%s | mutation %s | history %v", msg, m.name, aPath(path)), Detail: engaDetail{Path: path, Note: "proposal mutation " + m.name}}, nil)
		}
		blk := &sim.Block{TimeDelta: time.Second}
		pr, perr := x.N.Process(blk, txs)
		r.Transitions.Add(1)
		r.Validated.Add(1)
		if perr == nil && pr.Status == abci.ResponseProcessProposal_ACCEPT {
			viol("ill-formed-proposal-accepted:"+m.name, "ProcessProposal answered ACCEPT")
		} else {
			r.Outcome("mutant-rejected")
			why := x.N.LoggedErrors()
			if perr != nil {
				why = perr.Error()
			}
			r.Reason(m.name, why)
		}
		if len(txs) > 0 {
			fr, ferr := x.N.Finalize(blk, txs)
			if ferr == nil {
				must(x.N.Commit(blk, txs, fr))
				post := x.Head()
				// only the conditions that deterministic execution can re-check (C09's list) are
				// demanded of a block that was finalised although ProcessProposal rejected it
				if !bytes.Equal(post.Block.BlockHash, pre.Block.BlockHash) && c08MustNotMoveHead[m.name] {
					viol("head-moved-by-ill-formed-proposal:"+m.name, fmt.Sprintf("head %x -> %x", pre.Block.BlockHash, post.Block.BlockHash))
				}
			}
		}
		x.Close()
	}
}

// c08NonCanonical: payloads of an honest proposal whose fixed-size fields are written with an extra
// leading byte (the engine is shown, and answers for, the last 32 bytes). Whether such a proposal is
// refused or accepted is not what is judged here: if it is accepted, finalised and committed, the
// state it leaves is a committed state like any other, and the next honest proposal on it must be
// accepted and applied.
var c08Encodings = []struct {
	name string
	f    func(p *goatmodtypes.ExecutionPayload)
}{
	{"block-hash-33-bytes-leading-00", func(p *goatmodtypes.ExecutionPayload) { p.BlockHash = append([]byte{0}, p.BlockHash...) }},
	{"block-hash-33-bytes-leading-01", func(p *goatmodtypes.ExecutionPayload) { p.BlockHash = append([]byte{1}, p.BlockHash...) }},
	{"state-root-33-bytes", func(p *goatmodtypes.ExecutionPayload) { p.StateRoot = append([]byte{0}, p.StateRoot...) }},
	{"receipts-root-33-bytes", func(p *goatmodtypes.ExecutionPayload) { p.ReceiptsRoot = append([]byte{0}, p.ReceiptsRoot...) }},
	{"prev-randao-33-bytes", func(p *goatmodtypes.ExecutionPayload) { p.PrevRandao = append([]byte{0}, p.PrevRandao...) }},
	{"extra-data-longer", func(p *goatmodtypes.ExecutionPayload) { p.ExtraData = append(p.ExtraData, 0) }},
}

func c08NonCanonical(r *mc.Run, w *enga.World, path []enga.ABlock) {
	for _, enc := range c08Encodings {
		x, err := w.Fork()
		must(err)
		func() {
			defer x.Close()
			tx, _, err := x.N.BuildEthBlockTx(sim.EthBlockOpts{MutatePayload: enc.f})
			must(err)
			blk := &sim.Block{TimeDelta: time.Second}
			pr, perr := x.N.Process(blk, [][]byte{tx})
			r.Transitions.Add(1)
			r.Validated.Add(1)
			if perr != nil || pr.Status != abci.ResponseProcessProposal_ACCEPT {
				r.Outcome("non-canonical-encoding-refused:" + enc.name)
				x.N.LoggedErrors()
				return
			}
			fr, ferr := x.N.Finalize(blk, [][]byte{tx})
			if ferr != nil {
				r.Outcome("non-canonical-encoding-aborts-block:" + enc.name)
				return
			}
			must(x.N.Commit(blk, [][]byte{tx}, fr))
			r.Outcome(fmt.Sprintf("non-canonical-encoding-accepted:%s:code-%d", enc.name, fr.TxResults[0].Code))
			for i := 0; i < 2; i++ {
				rr := x.Run(enga.ABlock{})
				r.Transitions.Add(1)
				r.Validated.Add(1)
				if rr.Err != nil || !rr.EthOK {
					msg := "execution-block message fails"
					if rr.Err != nil {
						msg = rr.Stage + ": " + clip(rr.Err.Error(), 500)
					}
					r.Violate(mc.Violation{Class: "honest-proposal-fails-on-the-state-left-by-an-accepted-proposal:" + enc.name,
						Msg:    fmt.Sprintf("%s | honest block %d after the accepted proposal (%s) | history %v", msg, i+1, enc.name, aPath(path)),
						Detail: engaDetail{Path: path, Note: "accepted non-canonical proposal " + enc.name}}, nil)
					return
				}
			}
		}()
	}
}

// c08SharedAccount: a configuration the chain admits - the node's validator key is also the key of
// the current relayer proposer (one operator, one key). The block transaction then takes the very
// sequence number the account's pending relayer transactions were signed with. The honest proposal
// must still be accepted by the second replica and its block message applied, for every mempool class,
// at the root and after every request-only block of the menu.
func c08SharedAccount(r *mc.Run) {
	g := c08Cfg()
	g.Proposer = sim.Member{Key: g.Vals[g.NodeVal].Key, BLS: sim.NewBLSKey("relayer-0")}
	root, err := enga.NewWorld(g)
	must(err)
	defer root.Close()
	c08Config = "validator-account-is-the-relayer-proposer"
	defer func() { c08Config = "" }()
	var note []enga.ABlock
	c08Honest(r, root, note)
	for _, b := range []enga.ABlock{{}, {Events: []enga.Event{{Kind: "req:withdraw", N: 2}, {Kind: "req:claim", N: 2}}}, {Events: []enga.Event{{Kind: "req:unlock", N: 2}}, Dt: 1}, {Dt: 7}, {Absent: []int{1}}} {
		child, err := root.Fork()
		must(err)
		rr := child.Run(b)
		r.Transitions.Add(1)
		r.Validated.Add(1)
		if rr.Err != nil {
			r.Violate(mc.Violation{Class: "honest-block-fails:" + rr.Stage + ":shared-account", Msg: fmt.Sprintf("%v | validator account = relayer proposer | block %v", rr.Err, b), Detail: map[string]any{"configuration": c08Config, "path": []enga.ABlock{b}}}, nil)
		} else {
			c08Honest(r, child, append(append([]enga.ABlock{}, note...), b))
		}
		child.Close()
	}
	r.Outcome("shared-account-configuration-explored")
}

func runC08(r *mc.Run) {
	depth := 3
	if r.Thorough() {
		depth = 3
		r.SetBudget(13 * 60 * 1e9)
	} else {
		r.SetBudget(300 * 1e9)
	}
	r.Bounds["depth_blocks"] = depth
	r.Rule = "at every state of a tree search over block histories (2 validators, relayer proposer + 1 voter; menu with queue-filling events, unlock maturity, elections): (honest) for 8 mempool classes the real PrepareProposal output must be ACCEPTed by a second replica, carry <= 16 txs and its execution-block message must succeed in FinalizeBlock; (converse) 37 single mutations of a well-formed proposal must be rejected by ProcessProposal and must not move the head when finalised anyway; (sizes) execution blocks of 0.5 MiB - 6 MB and bursts of 400 / 1000 requests of one kind; (encodings) proposals with an extra leading byte in a fixed-size field: if accepted and committed, the next honest proposals must still be accepted and applied; (shared account) the same honest-proposal checks on a chain whose validator key is also the relayer proposer's key; (schedules, races) see schedule_* keys"
	r.Assumptions = []string{"validators' clocks are not behind the proposer's", "ELSim canonical mode defines the well-behaved execution layer"}
	var explore func(r *mc.Run, only []enga.ABlock)
	explore = func(r *mc.Run, only []enga.ABlock) {
		root, err := enga.NewWorld(c08Cfg())
		if err != nil {
			panic(err)
		}
		defer root.Close()
		menu := []enga.ABlock{
			{},
			{Events: []enga.Event{{Kind: "tx:hashes", N: 3}}},
			{Events: []enga.Event{{Kind: "tx:deposits", N: 9}}},
			{Events: []enga.Event{{Kind: "req:withdraw", N: 2}, {Kind: "req:withdraw", N: 2, Var: "bad-address"}, {Kind: "req:claim", N: 2}}},
			{Events: []enga.Event{{Kind: "req:unlock", N: 2}}, Dt: 1},
			{Dt: 2},
			{Dt: 7}, // relayer election
			{FailEth: true},
			{Events: []enga.Event{{Kind: "req:create", N: 3}}},
			{Absent: []int{1}},
		}
		c08Honest(r, root, nil)
		c08LargeBlocks(r, root, nil)
		c08ManyRequests(r, root, nil)
		c08NonCanonical(r, root, nil)
		c08Converse(r, root, nil)
		t := &enga.Tree{Run: r, Depth: depth,
			Menu: func(w *enga.World, path []enga.ABlock) []enga.ABlock { return menu },
			Visit: func(path []enga.ABlock, pre any, child *enga.World, res *enga.Result) bool {
				if res.Err != nil {
					if res.Err.Error() == sim.ErrEmptySet.Error() {
						return false
					}
					r.Violate(mc.Violation{Class: "honest-block-fails:" + res.Stage, Msg: fmt.Sprintf("%v | history %v", res.Err, aPath(path)), Detail: engaDetail{Path: path}}, nil)
					return false
				}
				if !res.EthOK && !res.Block.FailEth {
					r.Violate(mc.Violation{Class: "honest-execution-block-message-fails", Msg: fmt.Sprintf("%s | history %v", res.Finalize.TxResults[0].Log, aPath(path)), Detail: engaDetail{Path: path}}, nil)
				}
				c08Honest(r, child, path)
				if len(path) <= 1 || r.Thorough() {
					c08Converse(r, child, path)
				}
				if len(path) <= 1 {
					c08LargeBlocks(r, child, path)
					c08ManyRequests(r, child, path)
					c08NonCanonical(r, child, path)
				}
				return true
			},
		}
		t.Only = only
		t.Explore(root)
		r.Sample(map[string]any{"history": aPath(menu[1:4]), "mempool_classes": c08Pools, "mutations": len(c08Mutations())})
	}
	treeRecheck(r, explore)
	explore(r, nil)
	c08SharedAccount(r)
	c08RacePass(r)
	c08Schedules(r)
}

func replayC08(detail json.RawMessage) (bool, string) {
	return false, "re-run bin/check C08 quick; the artefact lists the history and the mempool class / mutation"
}

func init() { register(&Check{ID: "C08", Run: runC08, Replay: replayC08}) }
