package checks

import (
	"bytes"
	"encoding/json"
	"fmt"
	"math/big"
	"os"
	"sort"
	"time"

	"github.com/btcsuite/btcd/wire"

	abci "github.com/cometbft/cometbft/abci/types"
	"github.com/ethereum/go-ethereum/core/types/goattypes"
	bitcointypes "github.com/goatnetwork/goat/x/bitcoin/types"
	goatmodtypes "github.com/goatnetwork/goat/x/goat/types"
	"verifharness/enga"
	"verifharness/mc"
	"verifharness/sim"
)

// C06 – consensus-to-execution hand-over is exactly-once, ordered and gap-free.

type pendingUnlock struct {
	ID      uint64
	Release time.Time
	Seq     int
}

// ledger is the reference record of everything owed to the execution layer.
type ledger struct {
	Owed                   map[string][]string // kind -> FIFO of canonical items not yet delivered
	Delivered              map[string]int      // kind -> count delivered
	BridgeNonce, LockNonce uint64
	Unlocks                []pendingUnlock
	Seq                    int
	Hashes                 map[uint64]string // voted height -> hash (append-only)
	Tip                    uint64
	Terminal               map[uint64]string // withdrawal id -> paid | refund (each id gets exactly one notice)
	Credited               map[string]bool   // deposit outpoints ever owed (each is credited at most once)
	Dup                    []string
}

func newLedger(tip uint64) *ledger {
	return &ledger{Owed: map[string][]string{}, Delivered: map[string]int{}, Hashes: map[uint64]string{}, Tip: tip, Terminal: map[uint64]string{}, Credited: map[string]bool{}}
}

func (l *ledger) Clone() enga.Cloner {
	c := &ledger{Owed: map[string][]string{}, Delivered: map[string]int{}, BridgeNonce: l.BridgeNonce, LockNonce: l.LockNonce, Seq: l.Seq, Hashes: map[uint64]string{}, Tip: l.Tip, Terminal: map[uint64]string{}, Credited: map[string]bool{}}
	for k := range l.Credited {
		c.Credited[k] = true
	}
	for k, v := range l.Terminal {
		c.Terminal[k] = v
	}
	for k, v := range l.Owed {
		c.Owed[k] = append([]string{}, v...)
	}
	for k, v := range l.Delivered {
		c.Delivered[k] = v
	}
	for k, v := range l.Hashes {
		c.Hashes[k] = v
	}
	c.Unlocks = append([]pendingUnlock{}, l.Unlocks...)
	return c
}

func (l *ledger) owe(kind, item string) { l.Owed[kind] = append(l.Owed[kind], item) }

// terminal records the single terminal notice of a withdrawal; a second one is a violation
// (the consensus layer must not accept anything that owes the execution layer another notice).
func (l *ledger) terminal(id uint64, what string) {
	if prev, ok := l.Terminal[id]; ok {
		l.Dup = append(l.Dup, fmt.Sprintf("second-terminal-notice-for-withdrawal: id %d already %s, now %s again", id, prev, what))
		return
	}
	l.Terminal[id] = what
}

var caps = map[string]int{"hash": 1, "deposit": 8, "withdrawal": 8, "reward": 16, "unlock": 16}

func sysItem(st *sim.SysTx) (kind, item string) {
	switch t := st.Inner.(type) {
	case *goattypes.NewBtcBlockTx:
		return "hash", fmt.Sprintf("%x", t.Hash.Bytes())
	case *goattypes.DepositTx:
		return "deposit", fmt.Sprintf("%x:%d:%s:%s:%x", t.Txid.Bytes(), t.TxOut, t.Amount, t.Tax, t.Target.Bytes())
	case *goattypes.PaidTx:
		return "withdrawal", fmt.Sprintf("paid:%s:%x:%d:%s", t.Id, t.Txid.Bytes(), t.TxOut, t.Amount)
	case *goattypes.Cancel2Tx:
		return "withdrawal", fmt.Sprintf("refund:%s", t.Id)
	case *goattypes.DistributeRewardTx:
		return "reward", fmt.Sprintf("%d", t.Id)
	case *goattypes.CompleteUnlockTx:
		return "unlock", fmt.Sprintf("%d:%s", t.Id, t.Amount)
	}
	return "unknown", ""
}

var e10 = big.NewInt(1e10)

func wei(sat int64) *big.Int { return new(big.Int).Mul(big.NewInt(sat), e10) }

// c06Account updates the ledger with what the consensus layer accepted in this block and
// checks what was handed over. Returns violation strings.
func c06Account(l *ledger, parent *c06Pre, child *enga.World, res *enga.Result) []string {
	var bad []string
	if res.Err != nil || res.Finalize == nil {
		return nil
	}
	now := child.N.Time
	// ---- what the finalised payload delivered (only if the execution-block message succeeded)
	head := child.Head().Block
	if res.EthOK {
		n := int(head.ExtraData[0])
		perKind := map[string]int{}
		for i := 0; i < n; i++ {
			st, err := sim.DecodeSysTx(head.Transactions[i])
			if err != nil {
				bad = append(bad, fmt.Sprintf("undecodable-system-tx: %v", err))
				continue
			}
			kind, item := sysItem(st)
			perKind[kind]++
			if st.Module == goattypes.BirdgeModule {
				if st.Nonce != l.BridgeNonce {
					bad = append(bad, fmt.Sprintf("bridge-nonce-gap-or-reuse: got %d want %d (%s)", st.Nonce, l.BridgeNonce, kind))
				}
				l.BridgeNonce = st.Nonce + 1
			} else {
				if st.Nonce != l.LockNonce {
					bad = append(bad, fmt.Sprintf("locking-nonce-gap-or-reuse: got %d want %d (%s)", st.Nonce, l.LockNonce, kind))
				}
				l.LockNonce = st.Nonce + 1
			}
			q := l.Owed[kind]
			if len(q) == 0 {
				bad = append(bad, fmt.Sprintf("invented-or-duplicated-item: %s %s delivered but nothing owed", kind, item))
				continue
			}
			if q[0] != item {
				bad = append(bad, fmt.Sprintf("not-fifo-or-altered: %s delivered %q, next owed %q", kind, item, q[0]))
			}
			l.Owed[kind] = q[1:]
			l.Delivered[kind]++
		}
		for kind, c := range perKind {
			if c > caps[kind] {
				bad = append(bad, fmt.Sprintf("cap-exceeded: %d %s items in one block (cap %d)", c, kind, caps[kind]))
			}
		}
	}
	// ---- what the consensus layer accepted in this block (owed from the next block on)
	ti := 0
	for _, e := range res.Block.Events {
		if len(e.Kind) > 3 && e.Kind[:3] == "tx:" {
			skipped := false
			for _, s := range res.Skipped {
				if s == e.String() {
					skipped = true
				}
			}
			if skipped {
				continue
			}
			ok := ti < len(res.TxOK) && res.TxOK[ti]
			raw := res.RelayerTxs[ti]
			ti++
			if !ok {
				continue
			}
			tx, err := child.N.TxCfg.TxDecoder()(raw)
			must(err)
			switch m := tx.GetMsgs()[0].(type) {
			case *bitcointypes.MsgNewBlockHashes:
				if m.StartBlockNumber != l.Tip+1 {
					bad = append(bad, fmt.Sprintf("hash-batch-not-at-tip+1: start %d tip %d", m.StartBlockNumber, l.Tip))
				}
				for i, h := range m.BlockHash {
					l.owe("hash", fmt.Sprintf("%x", h))
					l.Hashes[m.StartBlockNumber+uint64(i)] = fmt.Sprintf("%x", h)
				}
				l.Tip = m.StartBlockNumber + uint64(len(m.BlockHash)) - 1
			case *bitcointypes.MsgNewDeposits:
				for _, d := range m.Deposits {
					op := fmt.Sprintf("%x:%d", sim.DSHA(d.NoWitnessTx), d.OutputIndex)
					if l.Credited[op] {
						l.Dup = append(l.Dup, "deposit-owed-twice: outpoint "+op+" accepted again")
					}
					l.Credited[op] = true
					v := int64(20000) + int64(d.TxIndex)
					l.owe("deposit", fmt.Sprintf("%x:%d:%s:%s:%x", sim.DSHA(d.NoWitnessTx), d.OutputIndex, wei(v), wei(0), d.EvmAddress))
				}
			case *bitcointypes.MsgFinalizeWithdrawal:
				pb := parent.batches[m.Pid]
				// the amount reported for an id is the matching output of the transaction that was
				// actually proven: the original (90000) or a fee-bumped replacement (89000)
				paid := new(wire.MsgTx)
				for _, cand := range parent.cands[m.Pid] {
					if bytes.Equal(sim.DSHA(cand), m.Txid) {
						must(paid.DeserializeNoWitness(bytes.NewReader(cand)))
					}
				}
				for i, id := range pb {
					l.terminal(id, "paid")
					v := int64(-1) // a transaction that was never voted for this batch
					if i < len(paid.TxOut) {
						v = paid.TxOut[i].Value
					}
					l.owe("withdrawal", fmt.Sprintf("paid:%d:%x:%d:%s", id, m.Txid, i, wei(v)))
				}
			case *bitcointypes.MsgApproveCancellation:
				for _, id := range m.Id {
					l.terminal(id, "refund")
					l.owe("withdrawal", fmt.Sprintf("refund:%d", id))
				}
			}
		}
	}
	if res.EthOK {
		wid, req := parent.nextWid, parent.nextReq
		for _, e := range res.Block.Events {
			switch {
			case e.Kind == "req:withdraw":
				if e.Var == "bad-address" {
					for i := 0; i < e.N; i++ {
						l.terminal(wid+uint64(i), "refund")
						l.owe("withdrawal", fmt.Sprintf("refund:%d", wid+uint64(i)))
					}
				}
				wid += uint64(e.N)
			case e.Kind == "req:claim":
				for i := 0; i < e.N; i++ {
					l.owe("reward", fmt.Sprintf("%d", req+uint64(i)))
				}
				req += uint64(e.N)
			case e.Kind == "req:unlock":
				for i := 0; i < e.N; i++ {
					l.Unlocks = append(l.Unlocks, pendingUnlock{ID: req + uint64(i), Release: now.Add(child.N.Cfg.LockingParams.UnlockDuration), Seq: l.Seq})
					l.Seq++
				}
				req += uint64(e.N)
			}
		}
	}
	// unlocks whose release time has come are owed from now on (in maturity order)
	var due, still []pendingUnlock
	for _, u := range l.Unlocks {
		if !u.Release.After(now) {
			due = append(due, u)
		} else {
			still = append(still, u)
		}
	}
	sort.SliceStable(due, func(i, j int) bool {
		if !due[i].Release.Equal(due[j].Release) {
			return due[i].Release.Before(due[j].Release)
		}
		return due[i].Seq < due[j].Seq
	})
	for _, u := range due {
		l.owe("unlock", fmt.Sprintf("%d:1", u.ID))
	}
	l.Unlocks = still
	bad = append(bad, l.Dup...)
	l.Dup = nil
	// ---- voted heights: append-only, gap-free
	k := child.N.App.BitcoinKeeper
	ctx := child.N.Ctx()
	tip, _ := k.BlockTip.Peek(ctx)
	if tip != l.Tip {
		bad = append(bad, fmt.Sprintf("tip-differs: store %d ledger %d", tip, l.Tip))
	}
	for h, want := range l.Hashes {
		got, err := k.BlockHashes.Get(ctx, h)
		if err != nil || fmt.Sprintf("%x", got) != want {
			bad = append(bad, fmt.Sprintf("voted-height-rewritten-or-missing: height %d", h))
		}
	}
	return bad
}

type c06Pre struct {
	head    enga.HeadInfo
	batches map[uint64][]uint64
	cands   map[uint64][][]byte // batch -> voted candidate transactions (original, then fee bumps)
	nextWid uint64
	nextReq uint64
	dump    string
}

func c06Menu(thorough bool) []enga.ABlock {
	m := []enga.ABlock{
		{},
		{Events: []enga.Event{{Kind: "tx:hashes", N: 1}}},
		{Events: []enga.Event{{Kind: "tx:hashes", N: 3}}},
		{Events: []enga.Event{{Kind: "tx:hashes", N: 1, Var: "gap"}}},
		{Events: []enga.Event{{Kind: "tx:hashes", N: 1, Var: "rewrite"}}},
		{Events: []enga.Event{{Kind: "tx:deposits", N: 9}}},
		{Events: []enga.Event{{Kind: "tx:deposits", N: 1}, {Kind: "tx:deposits", N: 1}}},
		{Events: []enga.Event{{Kind: "req:withdraw", N: 9}, {Kind: "req:withdraw", N: 3, Var: "bad-address"}}},
		{Events: []enga.Event{{Kind: "tx:process", N: 9}}},
		{Events: []enga.Event{{Kind: "tx:hashes", N: 1}, {Kind: "tx:finalize"}, {Kind: "req:withdraw", N: 3, Var: "bad-address"}}},
		{Events: []enga.Event{{Kind: "req:claim", N: 17}, {Kind: "req:unlock", N: 17}}, Dt: 2},
		{FailEth: true, Events: []enga.Event{{Kind: "tx:deposits", N: 1}}},
		{Abandon: 2, Events: []enga.Event{{Kind: "tx:hashes", N: 1}}},
		{Restart: true},
		{Events: []enga.Event{{Kind: "tx:approve", Var: "again"}}}, // late duplicate approval of refunded withdrawals
		{Events: []enga.Event{{Kind: "tx:deposits", N: 2, Var: "twice-listed"}}},
		{Events: []enga.Event{{Kind: "tx:hashes", N: 0, Var: "empty-list"}}}, // a voted batch without hashes: the tip must not move
	}
	m = append(m,
		enga.ABlock{Events: []enga.Event{{Kind: "req:cancel"}}},
		enga.ABlock{Events: []enga.Event{{Kind: "tx:approve"}}},
		enga.ABlock{Events: []enga.Event{{Kind: "tx:approve", Var: "twice-listed"}}},
		enga.ABlock{Events: []enga.Event{{Kind: "tx:approve", Var: "reversed"}}},
	)
	if thorough {
		m = append(m,
			enga.ABlock{Events: []enga.Event{{Kind: "tx:replace"}}},
			enga.ABlock{Mode: "built", Events: []enga.Event{{Kind: "tx:deposits", N: 9}}},
			enga.ABlock{Events: []enga.Event{{Kind: "tx:hashes", N: 0}}},
		)
	}
	return m
}

// c06Mutations: payload variants whose leading system transactions differ must be
// rejected by ProcessProposal and must fail (changing nothing) if finalised anyway.
func c06Mutations(r *mc.Run, w *enga.World, path []enga.ABlock) {
	ctx, _ := w.N.Ctx().CacheContext()
	due, err := w.N.App.GoatKeeper.Dequeue(ctx)
	if err != nil {
		r.Violate(mc.Violation{Class: "dues-cannot-be-drawn", Msg: fmt.Sprintf("the consensus layer cannot assemble what it owes the execution layer: %v | history %v", err, aPath(path)), Detail: engaDetail{Path: path}}, nil)
		return
	}
	if len(due) == 0 {
		return
	}
	type mut struct {
		name string
		f    func(p *goatmodtypes.ExecutionPayload)
	}
	muts := []mut{
		{"drop-first", func(p *goatmodtypes.ExecutionPayload) { p.Transactions = p.Transactions[1:]; p.ExtraData[0]-- }},
		{"drop-first-keep-count", func(p *goatmodtypes.ExecutionPayload) { p.Transactions = p.Transactions[1:] }},
		{"duplicate-first", func(p *goatmodtypes.ExecutionPayload) {
			p.Transactions = append([][]byte{p.Transactions[0]}, p.Transactions...)
			p.ExtraData[0]++
		}},
		{"flip-byte", func(p *goatmodtypes.ExecutionPayload) {
			t := bytes.Clone(p.Transactions[0])
			t[len(t)-1] ^= 1
			p.Transactions[0] = t
		}},
		{"count+1", func(p *goatmodtypes.ExecutionPayload) { p.ExtraData[0]++ }},
		{"count-1", func(p *goatmodtypes.ExecutionPayload) { p.ExtraData[0]-- }},
		{"none", func(p *goatmodtypes.ExecutionPayload) { p.Transactions = nil; p.ExtraData[0] = 0 }},
		{"append-invented", func(p *goatmodtypes.ExecutionPayload) {
			inv := bitcointypes.NewRejectEthTx(4242, 99)
			raw, _ := inv.MarshalBinary()
			n := int(p.ExtraData[0])
			p.Transactions = append(append(append([][]byte{}, p.Transactions[:n]...), raw), p.Transactions[n:]...)
			p.ExtraData[0]++
		}},
	}
	if len(due) > 1 {
		muts = append(muts, mut{"swap-first-two", func(p *goatmodtypes.ExecutionPayload) {
			p.Transactions[0], p.Transactions[1] = p.Transactions[1], p.Transactions[0]
		}})
	}
	for _, m := range muts {
		x, err := w.Fork()
		must(err)
		ethTx, _, err := x.N.BuildEthBlockTx(sim.EthBlockOpts{MutatePayload: m.f, Rehash: true})
		must(err)
		blk := &sim.Block{TimeDelta: time.Second, Txs: [][]byte{ethTx}}
		before := x.N.DumpStores(x.N.Ctx(), "bitcoin", "locking", "goat", "relayer").Hash()
		pr, perr := x.N.Process(blk, blk.Txs)
		r.Transitions.Add(1)
		r.Validated.Add(1)
		viol := func(class, msg string) {
			r.Violate(mc.Violation{Class: class, Msg: fmt.Sprintf("%s | mutation %s | history %v", msg, m.name, aPath(path)), Detail: engaDetail{Path: path, Note: "system-tx mutation " + m.name}}, nil)
		}
		if perr == nil && pr.Status == abci.ResponseProcessProposal_ACCEPT {
			viol("payload-with-wrong-system-txs-accepted:"+m.name, "ProcessProposal accepted")
		}
		r.Outcome("mutated-system-txs-rejected")
		// forced into FinalizeBlock anyway
		fr, ferr := x.N.Finalize(blk, blk.Txs)
		if ferr == nil {
			if fr.TxResults[0].Code == 0 {
				viol("payload-with-wrong-system-txs-executed:"+m.name, "MsgNewEthBlock succeeded in FinalizeBlock")
			}
			must(x.N.Commit(blk, blk.Txs, fr))
			after := x.N.DumpStores(x.N.Ctx(), "bitcoin", "locking", "goat", "relayer").Hash()
			if fr.TxResults[0].Code != 0 && after != before {
				// begin/end blockers may legitimately change locking (rewards); compare queues and nonces only
				qb, _ := w.N.App.BitcoinKeeper.EthTxQueue.Get(w.N.Ctx())
				qa, _ := x.N.App.BitcoinKeeper.EthTxQueue.Get(x.N.Ctx())
				nb, _ := w.N.App.BitcoinKeeper.EthTxNonce.Peek(w.N.Ctx())
				na, _ := x.N.App.BitcoinKeeper.EthTxNonce.Peek(x.N.Ctx())
				if qb.String() != qa.String() || nb != na {
					viol("failed-payload-consumed-queue:"+m.name, "bridge queue or nonce changed by a failed execution-block message")
				}
			}
		}
		x.Close()
	}
}

func runC06(r *mc.Run) {
	depth := 3
	if r.Thorough() {
		depth = 4
		r.SetBudget(13 * 60 * 1e9)
	} else {
		r.SetBudget(300 * 1e9)
	}
	r.Bounds["depth_blocks"] = depth
	r.Rule = "tree search over block histories of the real application with queue-filling events (1/3 new block hashes, gap and rewrite batches, 9 deposits, 1+1 deposits, a batch listing one deposit twice, an approval listing one id twice, 9 withdrawals + 3 undecodable, process 9, finalize, 17 claims + 17 unlocks, failing execution-block message, 2 abandoned PrepareProposal rounds, restart); a second root with 101 blocks voted at genesis and the deposit made by a mature coinbase in the menu; a reference ledger of owed items is compared with the system transactions of every finalised payload (FIFO per kind, caps, consecutive nonces, nothing dropped/duplicated/invented); every trace is drained with empty blocks; at every node with non-empty dues 9 mutations of the leading system transactions must be rejected by ProcessProposal and fail in FinalizeBlock"
	r.Assumptions = []string{"single validator = proposer of every block", "unlock amounts 1 wei, withdrawals 100000 sat paid 90000"}
	var explore func(r *mc.Run, only []enga.ABlock)
	explore = func(r *mc.Run, only []enga.ABlock) {
		root, err := enga.NewWorld(engaCfg())
		menu := c06Menu(r.Thorough())
		if c06Root == "101-blocks-voted-at-genesis" {
			// a second root: the 101 reference blocks above the genesis tip are voted already, so the
			// coinbase of the lowest one (whose second output is a deposit) is mature from the start
			if err == nil {
				root.Close()
			}
			root, err = enga.NewWorldPrevoted(engaCfg(), 101)
			ev := func(es ...enga.Event) enga.ABlock { return enga.ABlock{Events: es} }
			menu = []enga.ABlock{{}, ev(enga.Event{Kind: "tx:deposits", N: 1, Var: "mature-coinbase"}), ev(enga.Event{Kind: "tx:hashes", N: 1}),
				ev(enga.Event{Kind: "tx:deposits", N: 2}), ev(enga.Event{Kind: "tx:hashes", N: 1}, enga.Event{Kind: "tx:deposits", N: 1, Var: "mature-coinbase"})}
		}
		if err != nil {
			panic(err)
		}
		defer root.Close()
		root.Aux = newLedger(root.BtcTip())
		t := &enga.Tree{Run: r, Depth: depth,
			Menu: func(w *enga.World, path []enga.ABlock) []enga.ABlock { return menu },
			Pre: func(w *enga.World) any {
				p := &c06Pre{head: w.Head(), batches: map[uint64][]uint64{}, cands: map[uint64][][]byte{}, nextWid: w.Bot.NextWid, nextReq: w.Bot.NextReq}
				for pid, b := range w.Bot.Batches {
					p.batches[pid] = append([]uint64{}, b.IDs...)
					p.cands[pid] = append([][]byte{}, b.Txs...)
				}
				return p
			},
			Visit: func(path []enga.ABlock, pre any, child *enga.World, res *enga.Result) bool {
				viol := func(b string) {
					cls := b
					if i := bytes.IndexByte([]byte(b), ':'); i > 0 {
						cls = b[:i]
					}
					var det any = engaDetail{Path: path}
					if c06Root != "" {
						det = map[string]any{"root": c06Root, "path": path} // not replayable on the default root: no tree re-check
					}
					r.Violate(mc.Violation{Class: cls, Msg: b + fmt.Sprintf(" | history %v %s", aPath(path), c06Root), Detail: det}, nil)
				}
				if res.Err != nil {
					viol(fmt.Sprintf("honest-block-fails:%s: %v", res.Stage, res.Err))
					return false
				}
				if res.AbandonChangedState {
					viol("abandoned-proposal-round-changed-state")
				}
				for _, st := range res.AbandonedSysTxs {
					for _, c := range res.Calls {
						if c.Method == "forkchoiceUpdatedV3" && c.HasAttrs && fmt.Sprintf("%x", c.GoatTxs) != fmt.Sprintf("%x", st) {
							viol("abandoned-round-consumed-system-txs: the finalised round proposes different system transactions than the abandoned one")
						}
					}
				}
				l := child.Aux.(*ledger)
				for _, b := range c06Account(l, pre.(*c06Pre), child, res) {
					viol(b)
				}
				for _, e := range res.Block.Events {
					if e.Var == "gap" || e.Var == "rewrite" {
						for _, ok := range res.TxOK {
							if ok {
								viol("non-contiguous-hash-batch-accepted:" + e.Var)
							}
						}
					}
				}
				if res.EthOK {
					r.Outcome("payload-finalised")
				} else {
					r.Outcome("execution-message-failed")
				}
				if len(path) <= 2 {
					c06Mutations(r, child, path)
				}
				if len(path) == depth {
					// drain: everything owed must eventually be delivered, exactly once
					d, err := child.Fork()
					must(err)
					d.Aux = l.Clone()
					dl := d.Aux.(*ledger)
					for i := 0; i < 12; i++ {
						owed := 0
						for _, q := range dl.Owed {
							owed += len(q)
						}
						if owed == 0 && len(dl.Unlocks) == 0 {
							break
						}
						p := &c06Pre{head: d.Head(), batches: map[uint64][]uint64{}, nextWid: d.Bot.NextWid, nextReq: d.Bot.NextReq}
						rr := d.Run(enga.ABlock{Dt: 2})
						r.Transitions.Add(1)
						if rr.Err != nil {
							viol(fmt.Sprintf("drain-block-fails:%s", rr.Stage))
							break
						}
						for _, b := range c06Account(dl, p, d, rr) {
							viol(b)
						}
					}
					for kind, q := range dl.Owed {
						if len(q) > 0 {
							viol(fmt.Sprintf("owed-items-never-delivered:%s: %d left after draining", kind, len(q)))
						}
					}
					for kind, n := range dl.Delivered {
						if n > 0 {
							r.Outcome("delivered-kind:" + kind)
						}
					}
					d.Close()
				}
				return true
			},
		}
		t.Only = only
		t.Explore(root)
		if c06Root == "" {
			r.Sample(map[string]any{"history": aPath([]enga.ABlock{menu[2], menu[5], menu[10]}), "mutations_per_node": 9})
		} else {
			r.Sample(map[string]any{"root": c06Root, "menu": aPath(menu)})
		}
	}
	treeRecheck(r, explore)
	if js := os.Getenv("VERIF_C06_ONLY"); js != "" {
		// re-execute one recorded history only (used when classifying an alarm)
		var only []enga.ABlock
		must(json.Unmarshal([]byte(js), &only))
		explore(r, only)
		return
	}
	explore(r, nil)
	c06Root = "101-blocks-voted-at-genesis"
	explore(r, nil)
	c06Root = ""
}

// c06Root names the root the tree is explored from when it is not the default genesis.
var c06Root string

func replayC06(detail json.RawMessage) (bool, string) {
	return false, "re-run bin/check C06 quick; the artefact lists the history"
}

func init() { register(&Check{ID: "C06", Run: runC06, Replay: replayC06}) }
