package checks

import (
	"bytes"
	"crypto/sha256"
	"encoding/json"
	"fmt"

	sdk "github.com/cosmos/cosmos-sdk/types"
	bitcointypes "github.com/goatnetwork/goat/x/bitcoin/types"
	relayertypes "github.com/goatnetwork/goat/x/relayer/types"
	"verifharness/enga"
	"verifharness/mc"
	"verifharness/sim"
)

// C02 – a vote is single-use: the sequence advances exactly once per accepted proposal.

type c02Pre struct {
	seq      uint64
	randao   []byte
	accepted bool
	epoch    uint64
	// state reached by the same block without any relayer transaction (differential oracle)
	emptyDump map[int64]string
	parent    *enga.World
}

func relState(w *enga.World) (uint64, []byte, relayertypes.Relayer) {
	ctx := w.N.Ctx()
	rel, seq := w.Relayer()
	rd, err := w.N.App.RelayerKeeper.Randao.Get(ctx)
	must(err)
	return seq, rd, rel
}

func c02Menu(thorough bool) []enga.ABlock {
	ev := func(es ...enga.Event) enga.ABlock { return enga.ABlock{Events: es} }
	m := []enga.ABlock{
		{},
		{Dt: 7}, // election (period 6 s)
		ev(enga.Event{Kind: "tx:hashes", N: 1}),
		ev(enga.Event{Kind: "tx:hashes", N: 0, Var: "empty-list"}), // a voted proposal that records nothing must still consume its sequence
		ev(enga.Event{Kind: "tx:newpubkey"}),
		ev(enga.Event{Kind: "tx:newpubkey", Var: "existing"}), // valid vote, handler fails afterwards
		ev(enga.Event{Kind: "tx:deposits", N: 1}),
		ev(enga.Event{Kind: "tx:accept"}),
		ev(enga.Event{Kind: "tx:replay", Var: "unchanged"}),
		ev(enga.Event{Kind: "tx:replay", N: 1, Var: "unchanged"}),
		ev(enga.Event{Kind: "tx:replay", Var: "rewrite-context"}),
		ev(enga.Event{Kind: "tx:replay", Var: "rewrite-context+start"}),
		ev(enga.Event{Kind: "tx:replay", Var: "other-payload"}),
		ev(enga.Event{Kind: "tx:replay", Var: "other-action"}),
		ev(enga.Event{Kind: "tx:hashes", N: 1, Var: "chained"}, enga.Event{Kind: "tx:newpubkey"}),
		ev(enga.Event{Kind: "tx:hashes", N: 1}, enga.Event{Kind: "tx:newpubkey"}), // second signed for the same sequence
		ev(enga.Event{Kind: "tx:hashes", N: 1}, enga.Event{Kind: "tx:replay", Var: "unchanged"}),
		ev(enga.Event{Kind: "req:withdraw", N: 2}),
		ev(enga.Event{Kind: "tx:process", N: 1}),
		ev(enga.Event{Kind: "tx:process", N: 2, Var: "ids-permuted-after-the-vote"}),
		ev(enga.Event{Kind: "tx:process", N: 1, Var: "one-id-already-processing"}), // genuine vote, fails at the last id: no trace, no sequence
		ev(enga.Event{Kind: "req:removevoter"}),
		ev(enga.Event{Kind: "tx:consolidation"}),
		ev(enga.Event{Kind: "tx:consolidation", Var: "withhold"}), // a collected vote that is not submitted yet
		ev(enga.Event{Kind: "tx:replay-consolidation", Var: "unchanged"}),
		ev(enga.Event{Kind: "tx:replay-consolidation", Var: "rewrite-context"}),
	}
	if thorough {
		m = append(m,
			ev(enga.Event{Kind: "req:addvoter"}),
			ev(enga.Event{Kind: "tx:hashes", N: 2, Var: "gap"}),
			ev(enga.Event{Kind: "tx:approve"}),
			enga.ABlock{Restart: true, Events: []enga.Event{{Kind: "tx:replay", Var: "unchanged"}}},
		)
	}
	return m
}

// c02Twice are blocks that present the same ill-founded vote twice in a row to the same
// application instance: a rejection must not leave anything behind (not even outside the
// stores) that lets the identical message through the second time. They are tried in every
// state of the last level of the tree.
func c02Twice() []enga.ABlock {
	var out []enga.ABlock
	for _, e := range []enga.Event{
		{Kind: "tx:replay", Var: "unchanged"},
		{Kind: "tx:replay", Var: "rewrite-context"},
		{Kind: "tx:replay", Var: "rewrite-context+start"},
		{Kind: "tx:replay", Var: "other-payload"},
		{Kind: "tx:replay", Var: "other-action"},
		{Kind: "tx:replay-consolidation", Var: "rewrite-context"},
	} {
		out = append(out, enga.ABlock{Events: []enga.Event{e, e}})
	}
	return out
}

func isVoted(m sdk.Msg) ([]byte, bool) {
	switch t := m.(type) {
	case *bitcointypes.MsgNewBlockHashes:
		return t.Vote.GetSignature(), true
	case *bitcointypes.MsgNewPubkey:
		return t.Vote.GetSignature(), true
	case *bitcointypes.MsgProcessWithdrawal:
		return t.Vote.GetSignature(), true
	case *bitcointypes.MsgReplaceWithdrawal:
		return t.Vote.GetSignature(), true
	case *bitcointypes.MsgNewConsolidation:
		return t.Vote.GetSignature(), true
	}
	return nil, false
}

func runC02(r *mc.Run) {
	depth := 3
	if r.Thorough() {
		depth = 4
		r.SetBudget(13 * 60 * 1e9)
	} else {
		r.SetBudget(300 * 1e9)
	}
	r.Bounds["depth_blocks"] = depth
	r.Rule = "tree search over block histories of the real application (relayer proposer + 1 voter, and proposer alone; electing period 6 s): fresh voted messages (block hashes, new key, process withdrawal), voted messages that fail after the signature check, non-voted messages, elections, membership requests, two voted transactions in one block (chained and same-sequence), and every vote produced earlier in the history re-presented unchanged / with the claimed sequence, epoch and proposer rewritten / attached to another payload or action, and (at the last level) each ill-founded variant twice in a row to the same application instance; oracle = reference sequence counter and randao chain; a failed transaction leaves relayer and bridge stores equal to the same block without that transaction"
	r.Assumptions = []string{"the sender's account sequence (bumped by the ante handler for any included tx) is not part of the proposal's effect", "BLS unforgeability"}
	menu := c02Menu(r.Thorough())
	for _, voters := range []int{1, 0} {
		c02Explore(r, voters, depth, menu, nil)
	}
	r.Sample(map[string]any{"history": aPath([]enga.ABlock{menu[2], menu[9], menu[13]})})
}

func c02Explore(r *mc.Run, voters, depth int, menu []enga.ABlock, only []enga.ABlock) {
	treeRecheck(r, func(p *mc.Run, o []enga.ABlock) { c02Explore(p, voters, depth, menu, o) })
	cfg := c08Cfg()
	cfg.Voters = cfg.Voters[:voters]
	root, err := enga.NewWorld(cfg)
	if err != nil {
		panic(err)
	}
	defer root.Close()
	stores := []string{"relayer", "bitcoin"}
	twice := c02Twice()
	t := &enga.Tree{Run: r, Depth: depth,
		Menu: func(w *enga.World, path []enga.ABlock) []enga.ABlock {
			if len(path) == depth-1 {
				return append(append([]enga.ABlock{}, menu...), twice...)
			}
			return menu
		},
		Pre: func(w *enga.World) any {
			seq, rd, rel := relState(w)
			p := &c02Pre{seq: seq, randao: rd, accepted: rel.ProposerAccepted, epoch: rel.Epoch, emptyDump: map[int64]string{}}
			// the same block without relayer transactions, for dt = 1
			e, err := w.Fork()
			must(err)
			if rr := e.Run(enga.ABlock{}); rr.Err == nil {
				p.emptyDump[1] = e.N.DumpStores(e.N.Ctx(), stores...).Hash()
			}
			e.Close()
			return p
		},
		Visit: func(path []enga.ABlock, pre any, child *enga.World, res *enga.Result) bool {
			p := pre.(*c02Pre)
			viol := func(cls, msg string) {
				r.Violate(mc.Violation{Class: cls, Msg: fmt.Sprintf("%s | history %v", msg, aPath(path)), Detail: engaDetail{Path: path}}, nil)
			}
			if res.Err != nil {
				viol("honest-block-fails:"+res.Stage, res.Err.Error())
				return false
			}
			seq, rd, _ := relState(child)
			// reference counter and randao chain over the successful voted transactions of the block
			wantSeq, wantRd := p.seq, p.randao
			allFailed := true
			nTx := 0
			for i, raw := range res.RelayerTxs {
				ok := i < len(res.TxOK) && res.TxOK[i]
				tx, err := child.N.TxCfg.TxDecoder()(raw)
				must(err)
				nTx++
				sig, voted := isVoted(tx.GetMsgs()[0])
				kind := fmt.Sprintf("%T", tx.GetMsgs()[0])
				if ok {
					allFailed = false
					if voted {
						wantSeq++
						h := sha256.New()
						h.Write(wantRd)
						h.Write(sig)
						wantRd = h.Sum(nil)
						r.Outcome("voted-accepted:" + kind)
					} else {
						r.Outcome("non-voted-accepted:" + kind)
					}
				} else {
					r.Outcome("rejected:" + kind)
				}
			}
			if seq != wantSeq {
				viol("sequence-not-advanced-exactly-once-per-accepted-vote", fmt.Sprintf("sequence %d -> %d, reference %d (tx results %v)", p.seq, seq, wantSeq, res.TxOK))
			}
			if !bytes.Equal(rd, wantRd) {
				viol("randao-not-chained-over-accepted-votes", fmt.Sprintf("randao %x, reference %x", rd, wantRd))
			}
			// replays of any kind must never be accepted
			ti := 0
			for _, e := range res.Block.Events {
				if len(e.Kind) < 3 || e.Kind[:3] != "tx:" {
					continue
				}
				skipped := false
				for _, s := range res.Skipped {
					if s == e.String() {
						skipped = true
					}
				}
				if skipped {
					continue
				}
				ok := ti < len(res.TxOK) && res.TxOK[ti]
				ti++
				note := ""
				if ti-1 < len(res.Notes) {
					note = res.Notes[ti-1]
				}
				if note == "first-use" {
					if ok {
						r.Outcome("withheld-vote-first-use-accepted")
					}
					continue
				}
				if (e.Kind == "tx:replay" || e.Kind == "tx:replay-consolidation") && ok {
					viol("reused-vote-accepted:"+e.Var, fmt.Sprintf("a previously produced vote was accepted again (%s)", e.Var))
				}
				if e.Kind == "tx:process" && e.Var == "ids-permuted-after-the-vote" && ok {
					viol("vote-for-another-payload-accepted:permuted-ids", "a vote collected for one order of the withdrawal ids was accepted for another order")
				}
				if e.Kind == "tx:process" && e.Var == "one-id-already-processing" && ok {
					viol("proposal-naming-a-closed-withdrawal-succeeded", "a voted batch whose last id is already being processed was applied with code 0")
				}
				if e.Kind == "tx:newpubkey" && e.Var == "existing" && ok {
					viol("existing-key-accepted", "NewPubkey with an already registered key succeeded")
				}
			}
			// failed transactions leave relayer and bridge state as if they had not been included
			if nTx > 0 && allFailed && res.Block.Dt <= 1 && !res.Block.FailEth && len(res.Block.Events) == nTx+len(res.Skipped) {
				if want, ok := p.emptyDump[1]; ok {
					if got := child.N.DumpStores(child.N.Ctx(), stores...).Hash(); got != want {
						viol("failed-proposal-changed-state", "relayer/bitcoin stores differ from the same block without the failed transaction")
					} else {
						r.Outcome("failed-tx-state-equals-empty-block")
					}
				}
			}
			return true
		},
	}
	t.Only = only
	t.Explore(root)
	_ = sim.FaultNone
}

func replayC02(detail json.RawMessage) (bool, string) {
	return false, "re-run bin/check C02 quick; the artefact lists the history"
}

func init() { register(&Check{ID: "C02", Run: runC02, Replay: replayC02}) }
