package checks

import (
	"encoding/json"
	"fmt"
	"runtime"
	"sync/atomic"
	"time"

	"cosmossdk.io/math"
	sdk "github.com/cosmos/cosmos-sdk/types"
	"github.com/ethereum/go-ethereum/common"
	lockingtypes "github.com/goatnetwork/goat/x/locking/types"
	"verifharness/engb"
	"verifharness/mc"
	"verifharness/sim"
)

// Shared scenario of the locking properties C11-C15.

var theta = sim.Theta // 1e18 = one unit of voting power for a weight-1 token

func amt(n int64) string { return theta.MulRaw(n).String() }

// lockCfg describes one genesis corner of the locking world.
type lockCfg struct {
	Name          string   `json:"name"`
	Powers        []uint64 `json:"genesis_powers"` // active validators v0.. with these powers (btc, weight 1)
	MaxValidators int64    `json:"max_validators"`
	Tk2Weight     uint64   `json:"tk2_weight"`
	Tk2Threshold  int64    `json:"tk2_threshold_units"`
	InitialReward int64    `json:"initial_reward"`
	Remain        string   `json:"remain"`
	Candidates    int      `json:"candidates"` // number of keys in the alphabet (>= len(Powers))
	// non-initial corners: v0 additionally holds V0Tk2 of the second token; Jailed lists further
	// genesis validators (keys after the active ones, i.e. the "candidate" of the menus) that start
	// in jail for JailSecs with the given holdings and no voting power
	V0Tk2    string     `json:"v0_tk2,omitempty"`
	Jailed   []jailSpec `json:"jailed,omitempty"`
	JailSecs int64      `json:"jail_secs,omitempty"`
	// EqualDurations: the exit delay equals the unlock delay (legal: only exit < unlock is refused),
	// so ordinary and exit unlocks of one block share one maturity slot
	EqualDurations bool `json:"exit_delay_equals_unlock_delay,omitempty"`
	// DoubleSignFraction, when set, replaces the double-sign slash fraction (e.g. "-0.05"); a
	// configuration is only explored if the chain's own genesis validation admits it
	DoubleSignFraction string `json:"double_sign_fraction,omitempty"`
	// SubSecond: the menu's block times carry a sub-second part, as consensus (median) times do
	SubSecond bool `json:"sub_second_block_times,omitempty"`
	// HugeAmounts: the menu locks amounts near the limits of a 256-bit balance
	HugeAmounts bool `json:"huge_amounts,omitempty"`
	// ExitShorter: unlock period 100 s, jail 60 s, exit period 70 s - an exit period shorter than the
	// unlock period; explored only if the chain's own parameter validation admits it
	ExitShorter bool `json:"exit_period_shorter_than_unlock_period,omitempty"`
}

// admitted reports whether the module's own parameter validation accepts the configuration.
func (c lockCfg) admitted() error { return c.genesis().LockingParams.Validate() }

type jailSpec struct {
	Btc string `json:"btc"`
	Tk2 string `json:"tk2,omitempty"`
}

var tk2Addr = common.HexToAddress("0x00000000000000000000000000000000000000a2")

func (c lockCfg) genesis() *sim.GenesisCfg {
	cfg := sim.DefaultCfg(len(c.Powers), 0)
	for i := range cfg.Vals {
		cfg.Vals[i].Power = c.Powers[i]
		cfg.Vals[i].Locking = sdk.NewCoins(sdk.NewCoin("btc", theta.MulRaw(int64(c.Powers[i]))))
	}
	if c.V0Tk2 != "" {
		a, _ := math.NewIntFromString(c.V0Tk2)
		cfg.Vals[0].Locking = cfg.Vals[0].Locking.Add(sdk.NewCoin(lockingtypes.TokenDenom(tk2Addr), a))
		cfg.Vals[0].Power += a.MulRaw(int64(c.Tk2Weight)).Quo(theta).Uint64()
	}
	for i, j := range c.Jailed {
		coins := sdk.NewCoins()
		if a, ok := math.NewIntFromString(j.Btc); ok && a.IsPositive() {
			coins = coins.Add(sdk.NewCoin("btc", a))
		}
		if a, ok := math.NewIntFromString(j.Tk2); ok && a.IsPositive() {
			coins = coins.Add(sdk.NewCoin(lockingtypes.TokenDenom(tk2Addr), a))
		}
		cfg.Vals = append(cfg.Vals, sim.ValSpec{Key: sim.NewKey(fmt.Sprintf("cand-%d", len(c.Powers)+i)), Status: lockingtypes.Downgrade,
			Locking: coins, JailedUntil: cfg.Time.Add(time.Duration(c.JailSecs) * time.Second)})
	}
	if c.DoubleSignFraction != "" {
		cfg.LockingParams.SlashFractionDoubleSign = math.LegacyMustNewDecFromStr(c.DoubleSignFraction)
	}
	if c.EqualDurations {
		cfg.LockingParams.ExitingDuration = cfg.LockingParams.UnlockDuration
	}
	if c.ExitShorter {
		cfg.LockingParams.UnlockDuration, cfg.LockingParams.DowntimeJailDuration, cfg.LockingParams.ExitingDuration = 100*time.Second, 60*time.Second, 70*time.Second
	}
	cfg.LockingParams.MaxValidators = c.MaxValidators
	if c.InitialReward > 0 {
		cfg.LockingParams.InitialBlockReward = c.InitialReward
	}
	cfg.LockingParams.HalvingInterval = 2
	cfg.Tokens = []*lockingtypes.TokenGenesis{
		{Denom: "btc", Token: lockingtypes.Token{Weight: 1, Threshold: theta.MulRaw(2)}},
		{Denom: lockingtypes.TokenDenom(tk2Addr), Token: lockingtypes.Token{Weight: c.Tk2Weight, Threshold: theta.MulRaw(c.Tk2Threshold)}},
	}
	if c.Remain != "" {
		r, _ := math.NewIntFromString(c.Remain)
		cfg.RewardPool.Remain = r
	}
	return cfg
}

func (c lockCfg) keys() []sim.Key {
	g := c.genesis()
	var ks []sim.Key
	for _, v := range g.Vals {
		ks = append(ks, v.Key)
	}
	for i := len(ks); i < c.Candidates; i++ {
		ks = append(ks, sim.NewKey(fmt.Sprintf("cand-%d", i)))
	}
	return ks
}

func (c lockCfg) newRoot() (*engb.World, *engb.LState, error) {
	return engb.NewWorld(c.genesis(), c.keys(), []common.Address{{}, tk2Addr})
}

// lockDetail is the replayable description of a failing locking history.
type lockDetail struct {
	Cfg  lockCfg       `json:"config"`
	Path []engb.LBlock `json:"path"`
	Note string        `json:"note,omitempty"`
}

func pathStrings(p []engb.LBlock) []string {
	var out []string
	for _, b := range p {
		out = append(out, b.String())
	}
	return out
}

// lockReplay re-runs a recorded history with the given monitor factory and reports
// whether any violation class is raised again.
func lockReplay(detail json.RawMessage, mk func(r *mc.Run, c lockCfg) engb.Monitor, wantMid bool) (bool, string) {
	var d lockDetail
	if err := json.Unmarshal(detail, &d); err != nil {
		return false, err.Error()
	}
	r := mc.NewRun("replay", "quick")
	r.IgnoreKnown()
	if err := engb.Replay(d.Cfg.newRoot, d.Path, mk(r, d.Cfg), wantMid); err != nil {
		return false, err.Error()
	}
	vs := r.ViolationList()
	if len(vs) == 0 {
		return false, "no violation on replay"
	}
	return true, vs[0].Class + ": " + vs[0].Msg
}

// blocks builds the cross product "one optional vote/evidence/time deviation x up to
// maxOps request ops" used by the locking menus.
func singleOpBlocks(ops []engb.LOp, dts []int64) []engb.LBlock {
	var out []engb.LBlock
	for _, dt := range dts {
		out = append(out, engb.LBlock{Dt: dt})
	}
	for _, o := range ops {
		out = append(out, engb.LBlock{Dt: 1, Ops: []engb.LOp{o}})
	}
	return out
}

// runConformance replays the collected Engine-B traces through the real block pipeline.
func runConformance(r *mc.Run, c lockCfg, e *engb.Explorer) {
	paths := e.ConformancePaths
	// actual explored histories as evidence samples (the longest ones collected)
	best := [][]engb.LBlock{}
	for _, p := range paths {
		if len(best) < 2 || len(p) > len(best[0]) {
			best = append([][]engb.LBlock{p}, best...)
			if len(best) > 2 {
				best = best[:2]
			}
		}
	}
	for _, p := range best {
		r.Sample(map[string]any{"config": c.Name, "explored_history": pathStrings(p)})
	}
	var done, failed atomic.Int64
	mc.Parallel(len(paths), runtime.NumCPU(), func(i int) {
		if r.Expired() {
			r.Cap("time budget reached: conformance replay cut short")
			return
		}
		if err := engb.Conformance(c.genesis(), c.keys(), []common.Address{{}, tk2Addr}, paths[i]); err != nil {
			failed.Add(1)
			p := paths[i]
			r.Violate(mc.Violation{Class: "engine-B-does-not-conform-to-the-real-block-pipeline", Msg: err.Error() + " | history: " + fmt.Sprint(pathStrings(p)), Detail: lockDetail{Cfg: c, Path: p, Note: "conformance"}}, nil)
		}
		done.Add(1)
	})
	prev, _ := r.Extra["conformance_traces_replayed_through_real_blocks"].(int64)
	r.Extra["conformance_traces_replayed_through_real_blocks"] = prev + done.Load()
}
