package checks

import (
	"encoding/json"
	"fmt"
	"math/big"

	"github.com/ethereum/go-ethereum/core/types/goattypes"
	"verifharness/engb"
	"verifharness/mc"
)

// C12 – rewards are conserved and follow the emission schedule.

const bigReward = int64(2378234400000000000)

func c12Configs(thorough bool) []lockCfg {
	cs := []lockCfg{
		{Name: "powers-4-1-1", Powers: []uint64{4, 1, 1}, MaxValidators: 3, InitialReward: bigReward, Remain: "5000000000000000000", Candidates: 4},
		{Name: "powers-1-2-small", Powers: []uint64{1, 2}, MaxValidators: 3, InitialReward: 10, Remain: "25", Candidates: 3},
		{Name: "single", Powers: []uint64{1}, MaxValidators: 1, InitialReward: 10, Remain: "0", Candidates: 2},
		// the emission has already halved to nothing (1 >> 1 at height 2): gas fees and grants must
		// be taken in and shared all the same
		{Name: "emission-ended", Powers: []uint64{1, 2}, MaxValidators: 3, InitialReward: 1, Remain: "9", Candidates: 3},
	}
	if thorough {
		cs = append(cs,
			lockCfg{Name: "powers-1-1-1", Powers: []uint64{1, 1, 1}, MaxValidators: 3, InitialReward: bigReward, Remain: "7134703200000000001", Candidates: 4},
			lockCfg{Name: "powers-1-1", Powers: []uint64{1, 1}, MaxValidators: 2, InitialReward: 7, Remain: "20", Candidates: 3},
		)
	}
	return cs
}

func c12Menu(c lockCfg, thorough bool) func(w *engb.World, st *engb.LState, depth int) []engb.LBlock {
	cand := len(c.Powers)
	ops := []engb.LOp{
		{Kind: "claim", Val: 0},
		{Kind: "grant", Amt: "10"},
		{Kind: "grant", Amt: "6000000000000000006"},
		{Kind: "lock", Val: 0, Token: 0, Amt: amt(1)},
		{Kind: "unlock", Val: 0, Token: 0, Amt: amt(1)},
		{Kind: "create", Val: cand},
		{Kind: "lock", Val: cand, Token: 0, Amt: amt(2)},
	}
	if len(c.Powers) > 1 {
		ops = append(ops, engb.LOp{Kind: "claim", Val: 1})
	}
	base := singleOpBlocks(ops, []int64{1})
	base = append(base,
		engb.LBlock{Dt: 1, Gas: "7"},
		engb.LBlock{Dt: 1, Gas: "6000000000000000006"},
		engb.LBlock{Dt: 1, Gas: "1"},
		engb.LBlock{Dt: 1, Absent: []int{0}},
		engb.LBlock{Dt: 1, Ops: []engb.LOp{{Kind: "claim", Val: 0}, {Kind: "claim", Val: 0}}},
		engb.LBlock{Dt: 1, Gas: "7", Ops: []engb.LOp{{Kind: "claim", Val: 0}, {Kind: "grant", Amt: "3"}}},
		engb.LBlock{Dt: 1, Ops: []engb.LOp{{Kind: "claim", Val: 9}, {Kind: "grant", Amt: "3"}}}, // unknown validator: tx rolls back
		// several grants in one execution block (a top-up split over transactions, or two funders):
		// every one of them is granted funds
		engb.LBlock{Dt: 1, Ops: []engb.LOp{{Kind: "grant", Amt: "3"}, {Kind: "grant", Amt: "5"}}},
		engb.LBlock{Dt: 1, Gas: "1", Ops: []engb.LOp{{Kind: "grant", Amt: "10"}, {Kind: "grant", Amt: "10"}, {Kind: "grant", Amt: "1000000000000000001"}}},
		// a claim in the very block at whose end an earlier unlock matures (two kinds of dues meet in one queue)
		engb.LBlock{Dt: 10, Ops: []engb.LOp{{Kind: "claim", Val: 0}}},
		// double-sign evidence against a validator with unclaimed rewards (what it has earned stays its own)
		engb.LBlock{Dt: 1, Evidence: []engb.EvSpec{{Val: 0, AgeBlocks: 1, AgeSecs: 1}}},
	)
	if thorough {
		base = append(base,
			engb.LBlock{Dt: 1, Gas: "999999999999999999"},
			engb.LBlock{Dt: 1, Ops: []engb.LOp{{Kind: "grant", Amt: "1"}}},
		)
	}
	// the chain restarted from an exported state in mid-history: for the reference model a no-op
	base = append(base, engb.LBlock{Dt: 1, Reimport: true})
	return func(w *engb.World, st *engb.LState, depth int) []engb.LBlock { return base }
}

func rewardTotal(s *engb.Snap) *big.Int {
	t := new(big.Int)
	t.Add(t, s.Pool.Remain.BigInt())
	t.Add(t, s.Pool.Goat.BigInt())
	t.Add(t, s.Pool.Gas.BigInt())
	for _, v := range s.Vals {
		t.Add(t, v.Reward.BigInt())
		t.Add(t, v.GasReward.BigInt())
	}
	for _, q := range s.Queue.Rewards {
		t.Add(t, q.Goat.BigInt())
		t.Add(t, q.Gas.BigInt())
	}
	return t
}

var e18 = new(big.Int).Exp(big.NewInt(10), big.NewInt(18), nil)

// shareOK: |share - pool*p/total| <= 1 + pool*1e-18 (precision of 18-decimal arithmetic)
func shareOK(share, pool *big.Int, p, total int64) bool {
	// compare share*total against pool*p with tolerance (1 + pool/1e18)*total
	lhs := new(big.Int).Mul(share, big.NewInt(total))
	rhs := new(big.Int).Mul(pool, big.NewInt(p))
	diff := new(big.Int).Sub(lhs, rhs)
	diff.Abs(diff)
	tol := new(big.Int).Div(pool, e18)
	tol.Add(tol, big.NewInt(2))
	tol.Mul(tol, big.NewInt(total))
	return diff.Cmp(tol) <= 0
}

func c12Monitor(r *mc.Run, c lockCfg) engb.Monitor {
	return func(path []engb.LBlock, pre, next *engb.LState, res *engb.StepResult) {
		viol := func(class, msg string) {
			p := append([]engb.LBlock{}, path...)
			r.Violate(mc.Violation{Class: class, Msg: msg + " | history: " + fmt.Sprint(pathStrings(p)), Detail: lockDetail{Cfg: c, Path: p}}, nil)
		}
		if next == nil {
			if res.Truncated {
				r.Outcome("truncated-empty-set")
			} else {
				r.Outcome("block-failed(other property)")
			}
			return
		}
		preS, mid, post := res.Pre, res.AfterBegin, res.Post
		h := post.Height
		// ---- distribution in BeginBlocker
		if h >= 2 {
			var total int64
			for _, v := range res.Votes {
				total += v.Validator.Power
			}
			sumGoat, sumGas := new(big.Int), new(big.Int)
			voted := map[string]bool{}
			for _, vi := range res.Votes {
				a := string(vi.Validator.Address)
				voted[a] = true
				sg := new(big.Int).Sub(mid.Vals[a].Reward.BigInt(), preS.Vals[a].Reward.BigInt())
				sx := new(big.Int).Sub(mid.Vals[a].GasReward.BigInt(), preS.Vals[a].GasReward.BigInt())
				if sg.Sign() < 0 || sx.Sign() < 0 {
					viol("negative-share", fmt.Sprintf("validator %x share goat=%s gas=%s", a, sg, sx))
				}
				if !shareOK(sg, preS.Pool.Goat.BigInt(), vi.Validator.Power, total) {
					viol("goat-share-not-proportional", fmt.Sprintf("validator %x (power %d/%d) got %s of pool %s", a, vi.Validator.Power, total, sg, preS.Pool.Goat))
				}
				if !shareOK(sx, preS.Pool.Gas.BigInt(), vi.Validator.Power, total) {
					viol("gas-share-not-proportional", fmt.Sprintf("validator %x (power %d/%d) got %s of pool %s", a, vi.Validator.Power, total, sx, preS.Pool.Gas))
				}
				sumGoat.Add(sumGoat, sg)
				sumGas.Add(sumGas, sx)
			}
			for a, v := range mid.Vals {
				if !voted[a] {
					if pv, ok := preS.Vals[a]; ok && (!pv.Reward.Equal(v.Reward) || !pv.GasReward.Equal(v.GasReward)) {
						viol("reward-to-non-voter-set-validator", fmt.Sprintf("validator %x reward changed %s->%s", a, pv.Reward, v.Reward))
					}
				}
			}
			if sumGoat.Cmp(preS.Pool.Goat.BigInt()) > 0 {
				viol("distributed-more-than-pool:goat", fmt.Sprintf("shares sum %s > pool %s (powers %v)", sumGoat, preS.Pool.Goat, c.Powers))
			}
			if sumGas.Cmp(preS.Pool.Gas.BigInt()) > 0 {
				viol("distributed-more-than-pool:gas", fmt.Sprintf("shares sum %s > pool %s (powers %v)", sumGas, preS.Pool.Gas, c.Powers))
			}
			if new(big.Int).Sub(preS.Pool.Goat.BigInt(), sumGoat).Cmp(mid.Pool.Goat.BigInt()) != 0 {
				viol("goat-carry-over-wrong", fmt.Sprintf("pool %s - shares %s != carried %s", preS.Pool.Goat, sumGoat, mid.Pool.Goat))
			}
			if new(big.Int).Sub(preS.Pool.Gas.BigInt(), sumGas).Cmp(mid.Pool.Gas.BigInt()) != 0 {
				viol("gas-carry-over-wrong", fmt.Sprintf("pool %s - shares %s != carried %s", preS.Pool.Gas, sumGas, mid.Pool.Gas))
			}
		}
		// ---- intake and emission in the execution-block message
		grants, gas := new(big.Int), new(big.Int)
		if res.TxErr == nil {
			for _, g := range res.Reqs.Grants {
				grants.Add(grants, g.Amount)
			}
			for _, g := range res.Reqs.Gas {
				if g.Amount.Sign() > 0 {
					gas.Add(gas, g.Amount)
				}
			}
			remain := new(big.Int).Add(mid.Pool.Remain.BigInt(), grants)
			emit := big.NewInt(c.genesis().LockingParams.InitialBlockReward)
			emit.Rsh(emit, uint(h/c.genesis().LockingParams.HalvingInterval))
			if emit.Cmp(remain) > 0 {
				emit = new(big.Int).Set(remain)
			}
			if new(big.Int).Sub(remain, emit).Cmp(post.Pool.Remain.BigInt()) != 0 || new(big.Int).Add(mid.Pool.Goat.BigInt(), emit).Cmp(post.Pool.Goat.BigInt()) != 0 {
				viol("emission-schedule", fmt.Sprintf("height %d: expected to move %s (remain %s -> %s, goat %s -> %s)", h, emit, remain, post.Pool.Remain, mid.Pool.Goat, post.Pool.Goat))
			}
			if new(big.Int).Add(mid.Pool.Gas.BigInt(), gas).Cmp(post.Pool.Gas.BigInt()) != 0 {
				viol("gas-intake", fmt.Sprintf("gas pool %s + %s != %s", mid.Pool.Gas, gas, post.Pool.Gas))
			}
			// claims pay exactly the accrued pair once and zero it
			accrued := map[string][2]*big.Int{}
			for a, v := range mid.Vals {
				accrued[a] = [2]*big.Int{v.Reward.BigInt(), v.GasReward.BigInt()}
			}
			for _, cl := range res.Reqs.Claims {
				a := string(cl.Validator.Bytes())
				var found bool
				for _, q := range post.Queue.Rewards {
					if q.Id == cl.Id {
						found = true
						if q.Goat.BigInt().Cmp(accrued[a][0]) != 0 || q.Gas.BigInt().Cmp(accrued[a][1]) != 0 {
							viol("claim-pays-wrong-amount", fmt.Sprintf("claim %d pays (%s,%s), accrued (%s,%s)", cl.Id, q.Goat, q.Gas, accrued[a][0], accrued[a][1]))
						}
					}
				}
				if !found {
					viol("claim-not-queued", fmt.Sprintf("claim %d missing from the payout queue", cl.Id))
				}
				accrued[a] = [2]*big.Int{new(big.Int), new(big.Int)}
				if v := post.Vals[a]; !v.Reward.IsZero() || !v.GasReward.IsZero() {
					viol("claim-does-not-reset", fmt.Sprintf("validator %x still has (%s,%s) after claim", a, v.Reward, v.GasReward))
				}
			}
			r.Outcome("tx-ok")
		} else {
			r.Outcome("tx-rolled-back")
		}
		// ---- whole-block conservation
		delivered := new(big.Int)
		for _, tx := range res.Delivered {
			if dr, ok := tx.Inner.(*goattypes.DistributeRewardTx); ok {
				delivered.Add(delivered, dr.Goat)
				delivered.Add(delivered, dr.GasReward)
			}
		}
		lhs := new(big.Int).Add(rewardTotal(post), delivered)
		lhs.Sub(lhs, rewardTotal(preS))
		if lhs.Cmp(new(big.Int).Add(grants, gas)) != 0 {
			viol("reward-conservation-broken", fmt.Sprintf("pools+accrued+queued changed by %s (incl. %s delivered) but %s entered", lhs, delivered, new(big.Int).Add(grants, gas)))
		}
		// ---- non-negativity
		for _, s := range []*engb.Snap{mid, post} {
			if s.Pool.Goat.IsNegative() || s.Pool.Gas.IsNegative() || s.Pool.Remain.IsNegative() {
				viol("negative-pool", fmt.Sprintf("pool goat=%s gas=%s remain=%s (powers %v)", s.Pool.Goat, s.Pool.Gas, s.Pool.Remain, c.Powers))
			}
			for a, v := range s.Vals {
				if v.Reward.IsNegative() || v.GasReward.IsNegative() {
					viol("negative-accrued", fmt.Sprintf("validator %x reward=%s gas=%s", a, v.Reward, v.GasReward))
				}
			}
		}
	}
}

func runC12(r *mc.Run) {
	depth := 4
	if r.Thorough() {
		depth = 6
		r.SetBudget(10 * 60 * 1e9)
	} else {
		r.SetBudget(300 * 1e9)
	}
	r.Bounds["depth_blocks"] = depth
	r.Rule = "DFS over reward histories (grants, gas revenue incl. 18-decimal amounts, claims incl. double claim and a rolled-back batch, lock/unlock/create, absent votes) for power vectors (4,1,1),(1,2),(1) [+(1,1,1),(1,1)]; halving interval 2; oracle = step conservation identity, emission min(remain, initial>>(h/interval)), proportional shares within 18-decimal precision, sum of shares <= pool, exact carry-over, claim pays accrued once, non-negativity"
	r.Assumptions = []string{"execution-layer grant amounts are non-negative", "vote infos carry the powers of the reference validator set"}
	completed := depth
	for _, c := range c12Configs(r.Thorough()) {
		e := &engb.Explorer{Run: r, NewRoot: c.newRoot, Menu: c12Menu(c, r.Thorough()), Monitor: c12Monitor(r, c), Depth: depth, ConformanceDepth: 2, WantMid: true}
		if err := e.Explore(); err != nil {
			panic(err)
		}
		runConformance(r, c, e)
		if e.Completed < completed {
			completed = e.Completed
		}
		m := c12Menu(c, r.Thorough())(nil, nil, 0)
		r.Sample(map[string]any{"config": c, "menu_size": len(m), "example_blocks": []string{m[2].String(), m[len(m)-2].String()}})
	}
	r.Bounds["depth_completed"] = completed
}

func init() {
	register(&Check{ID: "C12", Run: runC12, Replay: func(d json.RawMessage) (bool, string) { return lockReplay(d, c12Monitor, true) }})
}
