package checks

import (
	"fmt"

	sdk "github.com/cosmos/cosmos-sdk/types"
	"github.com/cosmos/gogoproto/proto"
	bitcointypes "github.com/goatnetwork/goat/x/bitcoin/types"
	relayertypes "github.com/goatnetwork/goat/x/relayer/types"
	"verifharness/enga"
	"verifharness/mc"
)

// c01Binding decides the clause "the aggregate signature verifies over exactly that action and
// payload": for every voted kind, in a state where the genuine message is accepted, every
// single-field mutation of the payload (every byte of every byte field flipped in its lowest and
// highest bit, every byte field shortened / extended by one byte, every integer +-1 and with its
// top bit flipped, every list shortened, extended, rotated) is delivered with the unchanged,
// genuine vote and must be rejected: a vote binds every byte of what is applied.
type c01BindDetail struct {
	Kind     string `json:"kind"`
	Mutation string `json:"mutation"`
}

type c01Mutant struct {
	name string
	msg  sdk.Msg
}

func cloneMsg[T proto.Message](m T) T { return proto.Clone(m).(T) }

func flipBytes(field string, b []byte, emit func(name string, nb []byte)) {
	for i := range b {
		for _, bit := range []byte{0x01, 0x80} {
			nb := append([]byte{}, b...)
			nb[i] ^= bit
			emit(fmt.Sprintf("%s[%d]^%02x", field, i, bit), nb)
		}
	}
	if len(b) > 0 {
		emit(field+":drop-last-byte", append([]byte{}, b[:len(b)-1]...))
		emit(field+":drop-first-byte", append([]byte{}, b[1:]...))
	}
	emit(field+":append-zero-byte", append(append([]byte{}, b...), 0))
}

func mutU64(field string, v uint64, emit func(name string, nv uint64)) {
	emit(field+"+1", v+1)
	emit(field+"-1", v-1)
	emit(field+"^2^63", v^(1<<63))
	emit(field+"^2^32", v^(1<<32))
	emit(field+"<<8", v<<8)
}

// c01Mutants enumerates the single-field payload mutations of a genuine voted message.
func c01Mutants(m sdk.Msg) (out []c01Mutant) {
	switch g := m.(type) {
	case *bitcointypes.MsgNewBlockHashes:
		for i := range g.BlockHash {
			i := i
			flipBytes(fmt.Sprintf("hash%d", i), g.BlockHash[i], func(name string, nb []byte) {
				c := cloneMsg(g)
				c.BlockHash[i] = nb
				out = append(out, c01Mutant{name, c})
			})
		}
		mutU64("start", g.StartBlockNumber, func(name string, nv uint64) {
			c := cloneMsg(g)
			c.StartBlockNumber = nv
			out = append(out, c01Mutant{name, c})
		})
		if n := len(g.BlockHash); n > 0 {
			c := cloneMsg(g)
			c.BlockHash = c.BlockHash[:n-1]
			out = append(out, c01Mutant{"hashes:drop-last", c})
			c = cloneMsg(g)
			c.BlockHash = c.BlockHash[1:]
			out = append(out, c01Mutant{"hashes:drop-first", c})
			c = cloneMsg(g)
			c.BlockHash = append(c.BlockHash, append([]byte{}, c.BlockHash[n-1]...))
			out = append(out, c01Mutant{"hashes:repeat-last", c})
			// other lists with the very same concatenation of elements (a sign-doc that is the plain
			// concatenation cannot tell them apart: the list's framing has to be fixed elsewhere)
			var cat []byte
			for _, h := range g.BlockHash {
				cat = append(cat, h...)
			}
			reframe := func(name string, parts ...[]byte) {
				c := cloneMsg(g)
				c.BlockHash = nil
				for _, p := range parts {
					c.BlockHash = append(c.BlockHash, append([]byte{}, p...))
				}
				out = append(out, c01Mutant{"hashes:reframed:" + name, c})
			}
			reframe("one-element", cat)
			reframe("first-hash-in-two-halves", append([][]byte{cat[:16], cat[16:32]}, g.BlockHash[1:]...)...)
			reframe("empty-element-appended", append(append([][]byte{}, g.BlockHash...), []byte{})...)
			reframe("empty-element-first", append([][]byte{{}}, g.BlockHash...)...)
			reframe("last-byte-as-own-element", cat[:len(cat)-1], cat[len(cat)-1:])
			if n == 1 {
				var pieces [][]byte
				for i := 0; i < 32; i += 2 {
					pieces = append(pieces, cat[i:i+2])
				}
				reframe("sixteen-two-byte-pieces", pieces...)
			}
			if n > 1 {
				c = cloneMsg(g)
				c.BlockHash = append(c.BlockHash[1:], c.BlockHash[0])
				out = append(out, c01Mutant{"hashes:rotate", c})
				c = cloneMsg(g)
				c.BlockHash[n-1], c.BlockHash[n-2] = c.BlockHash[n-2], c.BlockHash[n-1]
				out = append(out, c01Mutant{"hashes:swap-last-two", c})
			}
		}
	case *bitcointypes.MsgNewPubkey:
		switch k := g.Pubkey.Key.(type) {
		case *relayertypes.PublicKey_Secp256K1:
			flipBytes("key", k.Secp256K1, func(name string, nb []byte) {
				c := cloneMsg(g)
				c.Pubkey = &relayertypes.PublicKey{Key: &relayertypes.PublicKey_Secp256K1{Secp256K1: nb}}
				out = append(out, c01Mutant{name, c})
			})
			c := cloneMsg(g)
			c.Pubkey = &relayertypes.PublicKey{Key: &relayertypes.PublicKey_Schnorr{Schnorr: append([]byte{}, k.Secp256K1[1:]...)}}
			out = append(out, c01Mutant{"key:same-x-as-schnorr", c})
		case *relayertypes.PublicKey_Schnorr:
			flipBytes("key", k.Schnorr, func(name string, nb []byte) {
				c := cloneMsg(g)
				c.Pubkey = &relayertypes.PublicKey{Key: &relayertypes.PublicKey_Schnorr{Schnorr: nb}}
				out = append(out, c01Mutant{name, c})
			})
			for _, pfx := range []byte{2, 3} {
				c := cloneMsg(g)
				c.Pubkey = &relayertypes.PublicKey{Key: &relayertypes.PublicKey_Secp256K1{Secp256K1: append([]byte{pfx}, k.Schnorr...)}}
				out = append(out, c01Mutant{fmt.Sprintf("key:same-x-as-secp256k1-%d", pfx), c})
			}
		}
	case *bitcointypes.MsgNewConsolidation:
		flipBytes("tx", g.NoWitnessTx, func(name string, nb []byte) {
			c := cloneMsg(g)
			c.NoWitnessTx = nb
			out = append(out, c01Mutant{name, c})
		})
	case *bitcointypes.MsgProcessWithdrawal:
		flipBytes("tx", g.NoWitnessTx, func(name string, nb []byte) {
			c := cloneMsg(g)
			c.NoWitnessTx = nb
			out = append(out, c01Mutant{name, c})
		})
		mutU64("fee", g.TxFee, func(name string, nv uint64) {
			c := cloneMsg(g)
			c.TxFee = nv
			out = append(out, c01Mutant{name, c})
		})
		for i := range g.Id {
			i := i
			mutU64(fmt.Sprintf("id%d", i), g.Id[i], func(name string, nv uint64) {
				c := cloneMsg(g)
				c.Id[i] = nv
				out = append(out, c01Mutant{name, c})
			})
		}
		if n := len(g.Id); n > 0 {
			c := cloneMsg(g)
			c.Id = c.Id[:n-1]
			out = append(out, c01Mutant{"ids:drop-last", c})
			c = cloneMsg(g)
			c.Id = append(c.Id, c.Id[n-1]+1)
			out = append(out, c01Mutant{"ids:append-next", c})
			c = cloneMsg(g)
			c.Id = append(c.Id, c.Id[n-1])
			out = append(out, c01Mutant{"ids:repeat-last", c})
			if n > 1 {
				c = cloneMsg(g)
				c.Id[0], c.Id[1] = c.Id[1], c.Id[0]
				out = append(out, c01Mutant{"ids:swap", c})
			}
			// the fee moved into the id list and back: the concatenation must not be ambiguous
			c = cloneMsg(g)
			c.Id = append(c.Id, c.TxFee)
			out = append(out, c01Mutant{"ids:append-fee", c})
		}
	case *bitcointypes.MsgReplaceWithdrawal:
		flipBytes("tx", g.NewNoWitnessTx, func(name string, nb []byte) {
			c := cloneMsg(g)
			c.NewNoWitnessTx = nb
			out = append(out, c01Mutant{name, c})
		})
		mutU64("fee", g.NewTxFee, func(name string, nv uint64) {
			c := cloneMsg(g)
			c.NewTxFee = nv
			out = append(out, c01Mutant{name, c})
		})
		mutU64("pid", g.Pid, func(name string, nv uint64) {
			c := cloneMsg(g)
			c.Pid = nv
			out = append(out, c01Mutant{name, c})
		})
		c := cloneMsg(g)
		c.Pid, c.NewTxFee = g.NewTxFee, g.Pid
		out = append(out, c01Mutant{"pid<->fee", c})
	default:
		panic(fmt.Sprintf("c01Mutants: %T", m))
	}
	return out
}

// c01BindScenario is a voted kind together with the history that makes its genuine message
// acceptable and the event that builds it.
type c01BindScenario struct {
	Name  string
	Setup []enga.ABlock
	Ev    enga.Event
}

func c01BindScenarios(thorough bool) []c01BindScenario {
	ev := func(es ...enga.Event) enga.ABlock { return enga.ABlock{Events: es} }
	wd := []enga.ABlock{ev(enga.Event{Kind: "req:withdraw", N: 2})}
	out := []c01BindScenario{
		{Name: "NewBlockHashes/1", Ev: enga.Event{Kind: "tx:hashes", N: 1}},
		{Name: "NewBlockHashes/2", Ev: enga.Event{Kind: "tx:hashes", N: 2}},
		{Name: "NewBlockHashes/15", Ev: enga.Event{Kind: "tx:hashes", N: 15}},
		{Name: "NewBlockHashes/16", Ev: enga.Event{Kind: "tx:hashes", N: 16}},
		{Name: "NewPubkey", Ev: enga.Event{Kind: "tx:newpubkey"}},
		{Name: "NewConsolidation", Ev: enga.Event{Kind: "tx:consolidation"}},
		{Name: "ProcessWithdrawal/2", Setup: wd, Ev: enga.Event{Kind: "tx:process", N: 2}},
		{Name: "ProcessWithdrawal/1", Setup: wd, Ev: enga.Event{Kind: "tx:process", N: 1}},
		{Name: "ReplaceWithdrawal", Setup: append(append([]enga.ABlock{}, wd...), ev(enga.Event{Kind: "tx:process", N: 2})), Ev: enga.Event{Kind: "tx:replace"}},
	}
	if thorough {
		for _, k := range []int{3, 4, 7, 8, 9} {
			out = append(out, c01BindScenario{Name: fmt.Sprintf("NewBlockHashes/%d", k), Ev: enga.Event{Kind: "tx:hashes", N: k}})
		}
	}
	return out
}

func c01BindWorld(sc c01BindScenario) (*enga.World, sdk.Msg, error) {
	w, err := enga.NewWorld(c08Cfg())
	if err != nil {
		return nil, nil, err
	}
	for _, b := range sc.Setup {
		if rr := w.Run(b); rr.Err != nil {
			w.Close()
			return nil, nil, fmt.Errorf("setup block fails: %v", rr.Err)
		}
	}
	msg, _ := w.BuildMsg(sc.Ev)
	if msg == nil {
		w.Close()
		return nil, nil, fmt.Errorf("no message for %v", sc.Ev)
	}
	return w, msg, nil
}

// c01BindEval delivers msg on a throw-away branch of the committed state.
func c01BindEval(w *enga.World, msg sdk.Msg) (accepted bool) {
	ctx, _ := w.N.Ctx().CacheContext()
	_, err, p := w.N.Deliver(ctx, msg)
	return err == nil && p == nil
}

func c01Binding(r *mc.Run) {
	total := 0
	for _, sc := range c01BindScenarios(r.Thorough()) {
		w, msg, err := c01BindWorld(sc)
		must(err)
		r.Transitions.Add(1)
		r.Validated.Add(1)
		if !c01BindEval(w, msg) {
			// without an accepted genuine message the mutations would be rejected vacuously
			r.Violate(mc.Violation{Class: "genuine-voted-proposal-rejected:" + sc.Name, Msg: "the fully signed genuine message is rejected", Detail: c01BindDetail{Kind: sc.Name}}, nil)
			w.Close()
			continue
		}
		r.Outcome("bind-genuine-accepted:" + sc.Name)
		for _, mu := range c01Mutants(msg) {
			if proto.Equal(mu.msg.(proto.Message), msg.(proto.Message)) {
				continue // not a mutation (e.g. 0<<8)
			}
			total++
			r.Transitions.Add(1)
			r.Validated.Add(1)
			if c01BindEval(w, mu.msg) {
				field := mu.name
				for i, ch := range field {
					if ch == '[' {
						field = field[:i]
						break
					}
				}
				r.Violate(mc.Violation{Class: "accepted-with-payload-other-than-voted:" + sc.Name + ":" + field,
					Msg:    fmt.Sprintf("%s: payload mutation %s delivered with the unchanged genuine vote is accepted", sc.Name, mu.name),
					Detail: c01BindDetail{Kind: sc.Name, Mutation: mu.name}}, nil)
			} else {
				r.Outcome("bind-mutation-rejected")
			}
		}
		w.Close()
	}
	r.Extra["payload_mutations_delivered_with_genuine_vote"] = total
}

func replayC01Bind(d c01BindDetail) (bool, string) {
	for _, sc := range c01BindScenarios(true) {
		if sc.Name != d.Kind {
			continue
		}
		w, msg, err := c01BindWorld(sc)
		if err != nil {
			return false, err.Error()
		}
		defer w.Close()
		if d.Mutation == "" {
			ok := c01BindEval(w, msg)
			return !ok, fmt.Sprintf("genuine accepted=%v", ok)
		}
		for _, mu := range c01Mutants(msg) {
			if mu.name == d.Mutation {
				ok := c01BindEval(w, mu.msg)
				return ok, fmt.Sprintf("mutation %s accepted=%v", mu.name, ok)
			}
		}
	}
	return false, "no such scenario / mutation"
}
