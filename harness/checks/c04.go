package checks

import (
	"crypto/sha256"
	"encoding/hex"
	"encoding/json"
	"fmt"
	"runtime"
	"sync"

	bitcointypes "github.com/goatnetwork/goat/x/bitcoin/types"
	"verifharness/mc"
	"verifharness/sim"
)

// C04 – Merkle inclusion proofs are sound and position-binding.
// Engine C: full enumeration of (tree size, leaf, claimed position, path variant,
// root variant, leaf variant) against the reference definition of inclusion.

type c04Case struct {
	Leaves  int    `json:"leaves"`
	Leaf    int    `json:"leaf"`
	Index   uint32 `json:"claimed_index"`
	PathVar string `json:"path_variant"`
	RootVar string `json:"root_variant"`
	LeafVar string `json:"leaf_variant"`
	LeafHex string `json:"leaf_hex"`
	RootHex string `json:"root_hex"`
	PathHex string `json:"path_hex"`
}

func c04Leaves(n int) [][]byte {
	out := make([][]byte, n)
	for i := range out {
		h := sha256.Sum256([]byte(fmt.Sprintf("c04-leaf-%d-of-%d", i, n)))
		out[i] = h[:]
	}
	return out
}

type namedBytes struct {
	name string
	b    []byte
}

func c04PathVariants(genuine []byte, leaves [][]byte) []namedBytes {
	vs := []namedBytes{{"genuine", genuine}}
	n := len(genuine) / 32
	for k := 0; k < n; k++ {
		vs = append(vs, namedBytes{fmt.Sprintf("truncate-to-%d", k), genuine[:k*32]})
	}
	vs = append(vs, namedBytes{"extend-zero", append(append([]byte{}, genuine...), make([]byte, 32)...)})
	if n > 0 {
		vs = append(vs, namedBytes{"extend-dup-last", append(append([]byte{}, genuine...), genuine[(n-1)*32:]...)})
	}
	vs = append(vs, namedBytes{"extend-leaf0", append(append([]byte{}, genuine...), leaves[0]...)})
	for k := 0; k+1 < n; k++ {
		p := append([]byte{}, genuine...)
		copy(p[k*32:], genuine[(k+1)*32:(k+2)*32])
		copy(p[(k+1)*32:], genuine[k*32:(k+1)*32])
		vs = append(vs, namedBytes{fmt.Sprintf("swap-%d-%d", k, k+1), p})
	}
	for k := 0; k < n; k++ {
		p := append([]byte{}, genuine...)
		p[k*32+5] ^= 0x10
		vs = append(vs, namedBytes{fmt.Sprintf("bitflip-node-%d", k), p})
	}
	vs = append(vs, namedBytes{"ragged+1", append(append([]byte{}, genuine...), 0)})
	if len(genuine) > 0 {
		vs = append(vs, namedBytes{"ragged-1", genuine[:len(genuine)-1]})
	}
	vs = append(vs, namedBytes{"ragged-31", make([]byte, 31)})
	return vs
}

func c04Eval(c *c04Case, leaf, root, path []byte) (got, want bool) {
	got = bitcointypes.VerifyMerkelProof(leaf, root, path, c.Index)
	want = sim.RefVerifyMerkle(leaf, root, path, c.Index)
	return
}

func runC04(r *mc.Run) {
	maxLeaves := 9
	if r.Thorough() {
		maxLeaves = 17
	}
	r.Bounds["max_leaves"] = maxLeaves
	r.Rule = "full product: tree size x leaf x claimed position in [0,2^(depth+2)) u {2^31,2^32-1} x path variants x root variants (incl. empty, 31/33 bytes and wrong sizes that are multiples of 32) x leaf variants (same); oracle = reference definition (position < 2^len(path) and fold reproduces root); and at the acceptance of deposits: genuine branches for positions {0,1,n/2,n-2,n-1} of blocks with 1..20000 transactions through the real MsgNewDeposits handler must be accepted, the same deposits claimed at position + 2^depth refused"
	r.Assumptions = []string{"SHA-256 collision resistance is not explored; leaves are pairwise distinct"}
	type job struct{ n, leaf int }
	var jobs []job
	for n := 1; n <= maxLeaves; n++ {
		for l := 0; l < n; l++ {
			jobs = append(jobs, job{n, l})
		}
	}
	mc.Parallel(len(jobs), runtime.NumCPU(), func(ji int) {
		j := jobs[ji]
		leaves := c04Leaves(j.n)
		levels := sim.MerkleTree(leaves)
		depth := len(levels) - 1
		root := levels[depth][0]
		genuine := sim.MerkleProof(leaves, j.leaf)
		var idxs []uint32
		for i := uint32(0); i < uint32(1)<<uint(depth+2); i++ {
			idxs = append(idxs, i)
		}
		idxs = append(idxs, 1<<31, 1<<31+uint32(j.leaf), ^uint32(0), uint32(j.leaf)+1<<uint(depth), uint32(j.leaf)+1<<16)
		roots := []namedBytes{{"genuine", root}}
		{
			f := append([]byte{}, root...)
			f[0] ^= 1
			roots = append(roots, namedBytes{"bitflip", f}, namedBytes{"31-bytes", root[:31]}, namedBytes{"33-bytes", append(append([]byte{}, root...), 0)},
				// wrong sizes that are whole numbers of hashes
				namedBytes{"empty", []byte{}}, namedBytes{"64-bytes", append(append([]byte{}, root...), root...)}, namedBytes{"root+32-zero-bytes", append(append([]byte{}, root...), make([]byte, 32)...)})
		}
		lf := leaves[j.leaf]
		leafVars := []namedBytes{{"genuine", lf}, {"31-bytes", lf[:31]}, {"33-bytes", append(append([]byte{}, lf...), 0)},
			{"empty", []byte{}}, {"nil", nil}, {"32-zero-bytes", make([]byte, 32)}, {"leaf+32-more-bytes", append(append([]byte{}, lf...), leaves[0]...)},
			{"leaf+64-more-bytes", append(append(append([]byte{}, lf...), leaves[0]...), lf...)}, {"64-bytes-equal-to-64-byte-root", append(append([]byte{}, root...), root...)}}
		if depth >= 1 {
			leafVars = append(leafVars, namedBytes{"inner-node", levels[1][j.leaf/2]})
		}
		paths := c04PathVariants(genuine, leaves)
		r.States.Add(int64(len(paths) * len(roots) * len(leafVars)))
		for _, pv := range paths {
			for _, rv := range roots {
				for _, lv := range leafVars {
					for _, idx := range idxs {
						c := &c04Case{Leaves: j.n, Leaf: j.leaf, Index: idx, PathVar: pv.name, RootVar: rv.name, LeafVar: lv.name}
						got, want := c04Eval(c, lv.b, rv.b, pv.b)
						r.Transitions.Add(1)
						r.Validated.Add(1)
						if got {
							r.Outcome("accept")
						} else {
							r.Outcome("reject")
						}
						if got != want {
							c.LeafHex, c.RootHex, c.PathHex = hex.EncodeToString(lv.b), hex.EncodeToString(rv.b), hex.EncodeToString(pv.b)
							cls := "accepts-position>=2^len(path)"
							if uint64(idx) < uint64(1)<<uint(len(pv.b)/32) || len(pv.b)%32 != 0 {
								cls = fmt.Sprintf("mismatch:%s/%s/%s got=%v want=%v", pv.name, rv.name, lv.name, got, want)
							}
							r.Violate(mc.Violation{Class: cls,
								Msg:    fmt.Sprintf("VerifyMerkelProof=%v reference=%v for %d-leaf tree, leaf %d, claimed index %d, path %s", got, want, j.n, j.leaf, idx, pv.name),
								Detail: c}, func() bool { g, w := c04Eval(c, lv.b, rv.b, pv.b); return g != w })
						}
						// position binding: leaf 0 must not verify under any other position
						if j.leaf == 0 && lv.name == "genuine" && rv.name == "genuine" && idx != 0 && got {
							c.LeafHex, c.RootHex, c.PathHex = hex.EncodeToString(lv.b), hex.EncodeToString(rv.b), hex.EncodeToString(pv.b)
							r.Violate(mc.Violation{Class: "first-leaf-accepted-at-other-position",
								Msg:    fmt.Sprintf("leaf 0 of a %d-leaf tree verifies under position %d with path %s", j.n, idx, pv.name),
								Detail: c}, nil)
						}
					}
				}
			}
		}
		if ji%7 == 0 {
			r.Sample(c04Case{Leaves: j.n, Leaf: j.leaf, Index: uint32(j.leaf), PathVar: "genuine", RootVar: "genuine", LeafVar: "genuine", PathHex: hex.EncodeToString(genuine)})
		}
	})
	c04Acceptance(r)
}

// c04Acceptance observes the predicate where the chain relies on it: a deposit whose transaction
// really sits at position p of a block with n transactions, relayed with its genuine branch through
// the real MsgNewDeposits handler, must be accepted - for small trees and for blocks as large as
// bitcoin produces (up to 20000 transactions, 15 levels) - and the same deposit claimed at
// p + 2^depth must be refused.
func c04Acceptance(r *mc.Run) {
	sizes := []int{1, 2, 3, 4, 5, 7, 8, 9, 16, 17, 33, 4097, 12195, 12196, 16384, 16385, 20000}
	type job struct{ n, pos int }
	var jobs []job
	for _, n := range sizes {
		seen := map[int]bool{}
		for _, p := range []int{0, 1, n / 2, n - 2, n - 1} {
			if p >= 0 && p < n && !seen[p] {
				seen[p] = true
				jobs = append(jobs, job{n, p})
			}
		}
	}
	r.Bounds["acceptance_block_sizes"] = sizes
	var mu sync.Mutex
	var pool []*depWorld
	get := func() *depWorld {
		mu.Lock()
		defer mu.Unlock()
		if len(pool) > 0 {
			w := pool[len(pool)-1]
			pool = pool[:len(pool)-1]
			return w
		}
		w, err := newDepWorld()
		must(err)
		return w
	}
	mc.Parallel(len(jobs), runtime.NumCPU(), func(i int) {
		j := jobs[i]
		w := get()
		defer func() { mu.Lock(); pool = append(pool, w); mu.Unlock() }()
		c := &depCase{Pos: j.pos, NTx: j.n, Height: c03Mature, Kind: "v0-secp", Value: 100000}
		acc, msg, _ := w.eval(c)
		r.Transitions.Add(1)
		r.Validated.Add(1)
		switch {
		case !acc:
			r.Violate(mc.Violation{Class: fmt.Sprintf("genuine-proof-refused-at-deposit-acceptance:%d-txs", j.n),
				Msg: fmt.Sprintf("deposit at position %d of a block with %d transactions, genuine branch: refused (%s)", j.pos, j.n, w.lastErr), Detail: c}, nil)
		case msg != "":
			r.Violate(mc.Violation{Class: "deposit-acceptance:" + msg, Msg: fmt.Sprintf("position %d of %d: %s", j.pos, j.n, msg), Detail: c}, nil)
		default:
			r.Outcome("genuine-deposit-accepted")
		}
		a := &depCase{Pos: j.pos, NTx: j.n, Height: c03Mature, Kind: "v0-secp", Value: 100000, Devs: []string{"idx:+2^depth"}}
		if acc2, _, _ := w.eval(a); acc2 {
			r.Violate(mc.Violation{Class: "deposit-accepted-under-position>=2^depth", Msg: fmt.Sprintf("position %d of %d claimed as %d + 2^depth: accepted", j.pos, j.n, j.pos), Detail: a}, nil)
		} else {
			r.Outcome("aliased-position-refused")
		}
		r.Transitions.Add(1)
		r.Validated.Add(1)
	})
	for _, w := range pool {
		w.close()
	}
}

func replayC04(detail json.RawMessage) (bool, string) {
	var c c04Case
	if err := json.Unmarshal(detail, &c); err != nil {
		return false, err.Error()
	}
	leaf, _ := hex.DecodeString(c.LeafHex)
	root, _ := hex.DecodeString(c.RootHex)
	path, _ := hex.DecodeString(c.PathHex)
	got, want := c04Eval(&c, leaf, root, path)
	return got != want || (c.Leaf == 0 && c.Index != 0 && got), fmt.Sprintf("VerifyMerkelProof=%v reference=%v (index %d, %d path nodes)", got, want, c.Index, len(path)/32)
}

func init() { register(&Check{ID: "C04", Run: runC04, Replay: replayC04}) }
