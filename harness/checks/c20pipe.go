package checks

import (
	"fmt"
	"runtime"

	"github.com/ethereum/go-ethereum/core/types/goattypes"
	bitcointypes "github.com/goatnetwork/goat/x/bitcoin/types"
	"verifharness/enga"
	"verifharness/mc"
)

// c20Pipeline puts parameter requests where they really come from: into the request list of an
// execution block that goes through PrepareProposal, ProcessProposal and FinalizeBlock of the real
// application, next to a withdrawal request of the same block. "Ignored" means ignored: the block
// is proposed, accepted and applied whatever the values are, the in-range requests and the
// withdrawal of the same block take effect, and the parameters afterwards are the ones the keeper
// computes for the same list (differential: block pipeline vs. direct call) and follow the
// reference rule "the last in-range request of a kind wins".
func c20Pipeline(r *mc.Run, vals []uint64) {
	var lists [][]c20Req
	for _, a := range vals {
		lists = append(lists, []c20Req{{Kind: "conf", A: a}}, []c20Req{{Kind: "min", A: a}}, []c20Req{{Kind: "tax", A: a, B: 7}}, []c20Req{{Kind: "tax", A: 5, B: a}})
		// an out-of-range or boundary value of one kind next to in-range requests of the two others
		lists = append(lists,
			[]c20Req{{Kind: "tax", A: a, B: a}, {Kind: "conf", A: 3}, {Kind: "min", A: 54321}},
			[]c20Req{{Kind: "conf", A: a}, {Kind: "tax", A: 77, B: 1234}, {Kind: "min", A: 54321}},
			[]c20Req{{Kind: "min", A: a}, {Kind: "tax", A: 77, B: 1234}, {Kind: "conf", A: 3}},
			// the same kind twice: in range first, then this value
			[]c20Req{{Kind: "tax", A: 77, B: 1234}, {Kind: "tax", A: a, B: 1}},
			[]c20Req{{Kind: "conf", A: 3}, {Kind: "conf", A: a}},
			[]c20Req{{Kind: "min", A: 54321}, {Kind: "min", A: a}},
		)
	}
	root, err := enga.NewWorld(engaCfg())
	must(err)
	defer root.Close()
	if rr := root.Run(enga.ABlock{}); rr.Err != nil {
		panic(rr.Err)
	}
	params := func(w *enga.World) pState {
		p, err := w.N.App.BitcoinKeeper.Params.Get(w.N.Ctx())
		must(err)
		return pState{p.DepositTaxRate, p.MaxDepositTax, p.ConfirmationNumber, p.MinDepositAmount}
	}
	pre := params(root)
	dw, err := newDepWorld()
	must(err)
	defer dw.close()
	r.Bounds["pipeline_request_lists"] = len(lists)
	type job struct {
		reqs []c20Req
		want pState // by the keeper called directly
	}
	jobs := make([]job, len(lists))
	for i, reqs := range lists {
		ns, err := c20Apply(dw, pre, reqs)
		must(err)
		jobs[i] = job{reqs, ns}
	}
	mc.Parallel(len(jobs), runtime.NumCPU(), func(i int) {
		j := jobs[i]
		x, err := root.Fork()
		must(err)
		defer x.Close()
		for _, q := range j.reqs {
			switch q.Kind {
			case "tax":
				x.ExtraBridge.DepositTax = append(x.ExtraBridge.DepositTax, &goattypes.DepositTaxRequest{Rate: q.A, Max: q.B})
			case "conf":
				x.ExtraBridge.Confirmation = append(x.ExtraBridge.Confirmation, &goattypes.ConfirmationNumberRequest{Number: q.A})
			case "min":
				x.ExtraBridge.MinDeposit = append(x.ExtraBridge.MinDeposit, &goattypes.MinDepositRequest{Satoshi: q.A})
			}
		}
		wid := x.Bot.NextWid
		rr := x.Run(enga.ABlock{Events: []enga.Event{{Kind: "req:withdraw", N: 1}}})
		r.Transitions.Add(1)
		r.Validated.Add(1)
		d := c20Detail{From: pre, Reqs: j.reqs, To: j.want, Net: "pipeline"}
		viol := func(cls, msg string) {
			r.Violate(mc.Violation{Class: "pipeline:" + cls, Msg: fmt.Sprintf("%s | requests %+v in one execution block, parameters before %+v", msg, j.reqs, pre), Detail: d}, nil)
		}
		if rr.Err != nil {
			viol("block-with-parameter-requests-not-processed", fmt.Sprintf("%s: %v | %s", rr.Stage, rr.Err, x.N.LoggedErrors()))
			return
		}
		if !rr.EthOK {
			viol("execution-block-message-fails", "the message carrying the requests failed: "+x.N.LoggedErrors())
			return
		}
		got := params(x)
		if got != j.want {
			viol("block-pipeline-and-keeper-disagree", fmt.Sprintf("after the block %+v, keeper called directly %+v", got, j.want))
		}
		if why := safe(got); why != "" {
			viol("unsafe-parameters", why)
		}
		// reference: the last in-range request of a kind wins, the others are ignored
		want := pre
		for _, q := range j.reqs {
			switch {
			case q.Kind == "tax" && q.A < 10000:
				want.Rate = q.A
			case q.Kind == "conf" && q.A >= 1:
				want.Conf = q.A
			case q.Kind == "min" && q.A > dustLimit:
				want.Min = q.A
			}
		}
		if got.Rate != want.Rate || got.Conf != want.Conf || got.Min != want.Min {
			viol("in-range-request-lost-or-out-of-range-applied", fmt.Sprintf("after the block %+v, reference rate=%d conf=%d min=%d", got, want.Rate, want.Conf, want.Min))
		}
		// the withdrawal requested in the same block is on record
		wd, err := x.N.App.BitcoinKeeper.Withdrawals.Get(x.N.Ctx(), wid)
		if err != nil || wd.Status != bitcointypes.WITHDRAWAL_STATUS_PENDING {
			viol("withdrawal-of-the-same-block-lost", fmt.Sprintf("withdrawal %d: %v %v", wid, wd.Status, err))
		}
		r.Outcome("pipeline-block-applied")
	})
}
