package checks

import (
	"bytes"
	"crypto/sha256"
	"encoding/json"
	"fmt"
	"sort"
	"strings"
	"time"

	cmtproto "github.com/cometbft/cometbft/proto/tendermint/types"
	sdk "github.com/cosmos/cosmos-sdk/types"
	"github.com/ethereum/go-ethereum/common"
	"github.com/ethereum/go-ethereum/core/types/goattypes"
	bitcointypes "github.com/goatnetwork/goat/x/bitcoin/types"
	relayertypes "github.com/goatnetwork/goat/x/relayer/types"
	"verifharness/mc"
	"verifharness/sim"
)

// C16 – relayer group stays well-formed; members join by proof; elections are timely.

type rOp struct {
	Kind string `json:"kind"` // add remove newvoter accept vote
	Who  int    `json:"who,omitempty"`
	Var  string `json:"variant,omitempty"`
}

type rBlock struct {
	Dt  int64 `json:"dt_s"`
	Ms  int64 `json:"dt_ms,omitempty"` // added to Dt: consensus times carry a sub-second part
	Ops []rOp `json:"ops,omitempty"`
}

func (b rBlock) String() string {
	parts := []string{fmt.Sprintf("dt=%d", b.Dt)}
	if b.Ms != 0 {
		parts[0] = fmt.Sprintf("dt=%d.%03d", b.Dt, b.Ms)
	}
	for _, o := range b.Ops {
		s := fmt.Sprintf("%s(m%d", o.Kind, o.Who)
		if o.Var != "" {
			s += "," + o.Var
		}
		parts = append(parts, s+")")
	}
	return strings.Join(parts, " ")
}

type c16Cfg struct {
	Name   string `json:"name"`
	Voters int    `json:"genesis_voters"`
	// LongTimeout: the accept-proposer timeout (150 s) is longer than the electing period (100 s) -
	// legal, and the period alone must then trigger the election
	LongTimeout bool `json:"accept_timeout_longer_than_period,omitempty"`
}

type rSnap struct {
	Height   int64
	Time     time.Time
	Relayer  relayertypes.Relayer
	Params   relayertypes.Params
	Voters   map[string]relayertypes.Voter
	Queue    relayertypes.VoterQueue
	Sequence uint64
	Randao   []byte
	Tip      uint64
}

type rNode struct {
	ctx    sdk.Context
	height int64
	time   time.Time
	snap   *rSnap
	// reference model
	acceptedAt map[int]uint64 // member index -> epoch at which its NewVoter was accepted
	// whether the proposer of the current term has accepted, by the reference's own account:
	// the genesis value, true after a successful AcceptProposer or verified proposal of the proposer, false from every election on
	refAccepted bool
}

type c16Inst struct {
	r       *mc.Run
	cfg     c16Cfg
	n       *sim.Node
	members []sim.Member // genesis members first (0 = genesis proposer), then candidates
	nGen    int
	root    *rNode
	byAddr  map[string]int
}

func (c c16Cfg) genesis() (*sim.GenesisCfg, []sim.Member) {
	g := sim.DefaultCfg(1, c.Voters)
	if c.LongTimeout {
		g.RelayerParams.AcceptProposerTimeout = 150 * time.Second
	}
	members := append([]sim.Member{g.Proposer}, g.Voters...)
	a := sim.NewMember("cand-a")
	b := sim.NewMember("cand-b-with-account")
	g.ExtraAccounts = append(g.ExtraAccounts, b.Key)
	members = append(members, a, b)
	return g, members
}

func newC16Inst(r *mc.Run, c c16Cfg) (*c16Inst, error) {
	g, members := c.genesis()
	n, err := sim.NewChain(g)
	if err != nil {
		return nil, err
	}
	if res := n.RunBlock(&sim.Block{TimeDelta: time.Second}); res.Err != nil {
		return nil, res.Err
	}
	in := &c16Inst{r: r, cfg: c, n: n, members: members, nGen: c.Voters + 1, byAddr: map[string]int{}}
	for i, m := range members {
		in.byAddr[m.AddrStr()] = i
	}
	hdr := cmtproto.Header{ChainID: g.ChainID, Height: n.Height, Time: n.Time}
	ctx, _ := n.App.NewUncachedContext(false, hdr).WithConsensusParams(*g.Consensus).CacheContext()
	in.root = &rNode{ctx: ctx, height: n.Height, time: n.Time, acceptedAt: map[int]uint64{}}
	in.root.snap = in.takeSnap(ctx.WithBlockHeight(n.Height).WithBlockTime(n.Time))
	in.root.refAccepted = in.root.snap.Relayer.ProposerAccepted
	return in, nil
}

func (in *c16Inst) Close()        { in.n.Close(); in.n.EL.Close() }
func (in *c16Inst) Root() mc.Node { return in.root }

func (in *c16Inst) takeSnap(ctx sdk.Context) *rSnap {
	k := in.n.App.RelayerKeeper
	s := &rSnap{Height: ctx.BlockHeight(), Time: ctx.BlockTime(), Voters: map[string]relayertypes.Voter{}}
	var err error
	s.Relayer, err = k.Relayer.Get(ctx)
	must(err)
	s.Params, err = k.Params.Get(ctx)
	must(err)
	must(k.Voters.Walk(ctx, nil, func(a string, v relayertypes.Voter) (bool, error) { s.Voters[a] = v; return false, nil }))
	s.Queue, err = k.Queue.Get(ctx)
	must(err)
	s.Sequence, err = k.Sequence.Peek(ctx)
	must(err)
	s.Randao, err = k.Randao.Get(ctx)
	must(err)
	s.Tip, err = in.n.App.BitcoinKeeper.BlockTip.Peek(ctx)
	must(err)
	return s
}

func must(err error) {
	if err != nil {
		panic(err)
	}
}

func (in *c16Inst) Key(nd mc.Node) string {
	n := nd.(*rNode)
	s := n.snap
	var sb strings.Builder
	fmt.Fprintf(&sb, "h%d;e%d;p%s;v%v;el%d;acc%v;seq%d;r%x;tip%d;q%v|%v;", s.Height, s.Relayer.Epoch, s.Relayer.Proposer, s.Relayer.Voters,
		int64(s.Time.Sub(s.Relayer.LastElected)), s.Relayer.ProposerAccepted, s.Sequence, s.Randao, s.Tip, s.Queue.OnBoarding, s.Queue.OffBoarding)
	addrs := make([]string, 0, len(s.Voters))
	for a := range s.Voters {
		addrs = append(addrs, a)
	}
	sort.Strings(addrs)
	for _, a := range addrs {
		v := s.Voters[a]
		fmt.Fprintf(&sb, "%s:%d,%d,%x;", a, v.Status, v.Height, sha256.Sum256(v.VoteKey))
	}
	for i := in.nGen; i < len(in.members); i++ {
		fmt.Fprintf(&sb, "acct%d=%v;", i, in.n.App.AccountKeeper.HasAccount(n.ctx, in.members[i].Addr()))
	}
	ks := make([]int, 0, len(n.acceptedAt))
	for k := range n.acceptedAt {
		ks = append(ks, k)
	}
	sort.Ints(ks)
	for _, k := range ks {
		fmt.Fprintf(&sb, "a%d@%d;", k, n.acceptedAt[k])
	}
	return sb.String()
}

func (in *c16Inst) Menu(nd mc.Node, depth int) []rBlock {
	a, b := in.nGen, in.nGen+1
	m := []rBlock{
		{Dt: 1}, {Dt: 30}, {Dt: 100},
		// times with a sub-second part: just short of / just past the accept timeout and the electing period
		{Dt: 29, Ms: 600}, {Ms: 500}, {Dt: 99, Ms: 600},
		{Dt: 1, Ops: []rOp{{Kind: "add", Who: a}}},
		{Dt: 1, Ops: []rOp{{Kind: "add", Who: b}}},
		{Dt: 1, Ops: []rOp{{Kind: "add", Who: a}, {Kind: "add", Who: a}}},
		{Dt: 1, Ops: []rOp{{Kind: "remove", Who: 0}}},
		{Dt: 1, Ops: []rOp{{Kind: "remove", Who: a}}},
		{Dt: 1, Ops: []rOp{{Kind: "newvoter", Who: a, Var: "genuine"}}},
		{Dt: 1, Ops: []rOp{{Kind: "newvoter", Who: b, Var: "genuine"}}},
		{Dt: 1, Ops: []rOp{{Kind: "newvoter", Who: a, Var: "forged-txproof"}}},
		{Dt: 1, Ops: []rOp{{Kind: "newvoter", Who: a, Var: "forged-blsproof"}}},
		{Dt: 1, Ops: []rOp{{Kind: "newvoter", Who: a, Var: "wrong-blskey"}}},
		{Dt: 1, Ops: []rOp{{Kind: "newvoter", Who: a, Var: "substituted-blskey"}}},
		{Dt: 1, Ops: []rOp{{Kind: "newvoter", Who: a, Var: "other-epoch"}}},
		{Dt: 1, Ops: []rOp{{Kind: "newvoter", Who: a, Var: "bls-proof-of-previous-epoch"}}},
		{Dt: 1, Ops: []rOp{{Kind: "newvoter", Who: a, Var: "tx-proof-of-previous-epoch"}}},
		{Dt: 1, Ops: []rOp{{Kind: "newvoter", Who: a, Var: "bls-proof-only:other-chain"}}},
		{Dt: 1, Ops: []rOp{{Kind: "newvoter", Who: a, Var: "bls-proof-only:other-height"}}},
		{Dt: 1, Ops: []rOp{{Kind: "newvoter", Who: a, Var: "bls-proof-only:other-proposer"}}},
		{Dt: 1, Ops: []rOp{{Kind: "newvoter", Who: a, Var: "bls-proof-only:next-epoch"}}},
		{Dt: 1, Ops: []rOp{{Kind: "newvoter", Who: a, Var: "other-chain"}}},
		{Dt: 1, Ops: []rOp{{Kind: "newvoter", Who: a, Var: "other-height"}}},
		{Dt: 1, Ops: []rOp{{Kind: "newvoter", Who: a, Var: "other-proposer-signed"}}},
		{Dt: 1, Ops: []rOp{{Kind: "newvoter", Who: a, Var: "sender-not-proposer"}}},
		{Dt: 1, Ops: []rOp{{Kind: "accept", Var: "right-epoch"}}},
		{Dt: 1, Ops: []rOp{{Kind: "accept", Var: "wrong-epoch"}}},
		{Dt: 31, Ops: []rOp{{Kind: "accept", Var: "right-epoch"}}},
		{Dt: 1, Ops: []rOp{{Kind: "vote", Var: "all-members"}}},
		{Dt: 1, Ops: []rOp{{Kind: "vote", Var: "with-joiner"}}},
		{Dt: 1, Ops: []rOp{{Kind: "add", Who: a}, {Kind: "newvoter", Who: a, Var: "genuine"}}},
	}
	if in.nGen > 1 {
		all := []rOp{}
		for i := 0; i < in.nGen; i++ {
			all = append(all, rOp{Kind: "remove", Who: i})
		}
		m = append(m,
			rBlock{Dt: 1, Ops: []rOp{{Kind: "vote", Var: "without-first-voter"}}},
			rBlock{Dt: 1, Ops: []rOp{{Kind: "vote", Var: "without-last-voter"}}},
			rBlock{Dt: 1, Ops: []rOp{{Kind: "remove", Who: 1}}},
			rBlock{Dt: 1, Ops: all},
			rBlock{Dt: 1, Ops: []rOp{{Kind: "add", Who: 1}}}, // re-joining address
			rBlock{Dt: 1, Ops: []rOp{{Kind: "newvoter", Who: 1, Var: "genuine"}}},
			rBlock{Dt: 1, Ops: []rOp{{Kind: "remove", Who: 1}, {Kind: "remove", Who: 1}}},
		)
	}
	return m
}

type c16Detail struct {
	Cfg  c16Cfg   `json:"config"`
	Path []rBlock `json:"path"`
}

func rPath(p []rBlock) []string {
	var out []string
	for _, b := range p {
		out = append(out, b.String())
	}
	return out
}

// newVoterMsg builds MsgNewVoterRequest for member who in the given variant; the second
// result says whether the proofs are genuine for the current context.
func (in *c16Inst) newVoterMsg(s *rSnap, chainID string, who int, variant string) (*relayertypes.MsgNewVoterRequest, bool) {
	m := in.members[who]
	rec, has := s.Voters[m.AddrStr()]
	height := rec.Height
	bls := m.BLS
	txKey := m.Key
	proposer := s.Relayer.Proposer
	epoch := s.Relayer.Epoch
	signedProposer := proposer
	blsSigner := bls
	txSigner := txKey
	var hashOf sim.BLSKey // the vote key whose hash the signed registration commits to (default: the submitted one)
	genuine := has && rec.Status == relayertypes.VOTER_STATUS_PENDING && variant == "genuine"
	switch variant {
	case "genuine":
	case "forged-txproof":
		txSigner = sim.NewKey("forger")
	case "forged-blsproof":
		blsSigner = sim.NewBLSKey("forger")
	case "wrong-blskey":
		bls = sim.NewBLSKey("another-key")
		blsSigner = bls
	case "substituted-blskey":
		// another vote key than the registered one, with both proofs made over the genuine
		// registration (which commits to the registered key hash): only the comparison of the
		// submitted key with that hash stands between it and the group
		hashOf = bls
		bls = sim.NewBLSKey("another-key")
		blsSigner = bls
	case "other-epoch":
		epoch++
	case "other-chain":
		chainID += "-x"
	case "other-height":
		height++
	case "other-proposer-signed":
		signedProposer = in.members[len(in.members)-1].AddrStr()
	case "sender-not-proposer":
		proposer = in.members[len(in.members)-1].AddrStr()
		signedProposer = proposer
	}
	if hashOf.PK == nil {
		hashOf = bls
	}
	voteKeyHash := sha256.Sum256(hashOf.PK)
	req := relayertypes.NewOnBoardingVoterRequest(height, m.Addr(), voteKeyHash[:])
	sigMsg := relayertypes.VoteSignDoc(req.MethodName(), chainID, signedProposer, 0, epoch, req.SignDoc())
	// one of the two proofs made in the previous epoch (a proof that was genuine then), the other fresh
	prevMsg := relayertypes.VoteSignDoc(req.MethodName(), chainID, signedProposer, 0, epoch-1, req.SignDoc())
	txDoc, blsDoc := sigMsg, sigMsg
	switch variant {
	case "bls-proof-of-previous-epoch":
		blsDoc = prevMsg
	case "tx-proof-of-previous-epoch":
		txDoc = prevMsg
	}
	// exactly one of the two proofs made for another chain / registration height / proposer, the other
	// genuine: each proof on its own has to be bound to the whole context
	if i := strings.Index(variant, "-proof-only:"); i > 0 {
		otherReq := relayertypes.NewOnBoardingVoterRequest(height+1, m.Addr(), voteKeyHash[:])
		var doc []byte
		switch variant[i+len("-proof-only:"):] {
		case "other-chain":
			doc = relayertypes.VoteSignDoc(req.MethodName(), chainID+"-x", signedProposer, 0, epoch, req.SignDoc())
		case "other-height":
			doc = relayertypes.VoteSignDoc(otherReq.MethodName(), chainID, signedProposer, 0, epoch, otherReq.SignDoc())
		case "other-proposer":
			doc = relayertypes.VoteSignDoc(req.MethodName(), chainID, in.members[len(in.members)-1].AddrStr(), 0, epoch, req.SignDoc())
		case "next-epoch":
			doc = relayertypes.VoteSignDoc(req.MethodName(), chainID, signedProposer, 0, epoch+1, req.SignDoc())
		default:
			panic("newvoter variant " + variant)
		}
		if variant[:i] == "bls" {
			blsDoc = doc
		} else {
			txDoc = doc
		}
	}
	return &relayertypes.MsgNewVoterRequest{
		Proposer:         proposer,
		VoterBlsKey:      bls.PK,
		VoterTxKey:       txKey.Pub().Key,
		VoterTxKeyProof:  txSigner.SignECDSA64(txDoc),
		VoterBlsKeyProof: blsSigner.Sign(blsDoc),
	}, genuine
}

func (in *c16Inst) Step(nd mc.Node, b rBlock, path []rBlock, silent bool) mc.Node {
	pre := nd.(*rNode)
	r := in.r
	k := in.n.App.RelayerKeeper
	chainID := in.n.Cfg.ChainID
	viol := func(class, msg string) {
		if silent {
			return
		}
		p := append([]rBlock{}, path...)
		r.Violate(mc.Violation{Class: class, Msg: msg + " | history: " + fmt.Sprint(rPath(p)), Detail: c16Detail{Cfg: in.cfg, Path: p}}, nil)
	}
	outcome := func(o string) {
		if !silent {
			r.Outcome(o)
		}
	}
	h := pre.height + 1
	t := pre.time.Add(time.Duration(b.Dt)*time.Second + time.Duration(b.Ms)*time.Millisecond)
	bctx, _ := pre.ctx.CacheContext()
	bctx = bctx.WithBlockHeight(h).WithBlockTime(t).WithEventManager(sdk.NewEventManager()).WithHeaderHash(sim.FakeBlockHash(h, nil))
	next := &rNode{height: h, time: t, acceptedAt: map[int]uint64{}, refAccepted: pre.refAccepted}
	for k, v := range pre.acceptedAt {
		next.acceptedAt[k] = v
	}

	// execution-layer requests of this block (one atomic tx)
	var req goattypes.RelayerRequests
	for _, o := range b.Ops {
		m := in.members[o.Who]
		switch o.Kind {
		case "add":
			hsh := sha256.Sum256(m.BLS.PK)
			req.Adds = append(req.Adds, &goattypes.AddVoterRequest{Voter: common.BytesToAddress(m.Addr()), Pubkey: common.BytesToHash(hsh[:])})
		case "remove":
			req.Removes = append(req.Removes, &goattypes.RemoveVoterRequest{Voter: common.BytesToAddress(m.Addr())})
		}
	}
	if len(req.Adds)+len(req.Removes) > 0 {
		tctx, write := bctx.CacheContext()
		var err error
		func() {
			defer func() {
				if p := recover(); p != nil {
					err = fmt.Errorf("panic: %v", p)
				}
			}()
			err = k.ProcessRelayerRequest(tctx, req)
		}()
		if err != nil {
			viol("relayer-request-processing-failed", "ProcessRelayerRequest: "+err.Error())
		} else {
			write()
		}
	}
	// relayer messages, each its own transaction
	for _, o := range b.Ops {
		cur := in.takeSnap(bctx)
		switch o.Kind {
		case "newvoter":
			msg, genuine := in.newVoterMsg(cur, chainID, o.Who, o.Var)
			tctx, write := bctx.CacheContext()
			_, err, _ := in.n.Deliver(tctx, msg)
			if err == nil {
				write()
				next.acceptedAt[o.Who] = cur.Relayer.Epoch
				next.refAccepted = true // a proposal that passes verification counts as the proposer taking up its term
				outcome("newvoter-accepted")
			} else {
				outcome("newvoter-rejected:" + o.Var)
				if !silent {
					if rec, has := cur.Voters[in.members[o.Who].AddrStr()]; has && rec.Status == relayertypes.VOTER_STATUS_PENDING {
						r.Reason("newvoter:"+o.Var+" (voter pending)", err.Error())
					}
				}
			}
			if (err == nil) != genuine {
				viol("newvoter-verdict:"+o.Var, fmt.Sprintf("NewVoter(%s) accepted=%v, reference genuine-and-pending=%v (err=%v)", o.Var, err == nil, genuine, err))
			}
		case "accept":
			ep := cur.Relayer.Epoch
			if o.Var == "wrong-epoch" {
				ep++
			}
			msg := &relayertypes.MsgAcceptProposerRequest{Proposer: cur.Relayer.Proposer, Epoch: ep}
			tctx, write := bctx.CacheContext()
			_, err, _ := in.n.Deliver(tctx, msg)
			if err == nil {
				write()
				outcome("accept-ok")
				was := next.refAccepted
				next.refAccepted = true
				if was || cur.Relayer.ProposerAccepted || o.Var == "wrong-epoch" {
					viol("accept-proposer-accepted-wrongly", fmt.Sprintf("accepted although already accepted=%v variant=%s", cur.Relayer.ProposerAccepted, o.Var))
				}
				if t.Sub(cur.Relayer.LastElected) > cur.Params.AcceptProposerTimeout {
					viol("accept-proposer-after-timeout", fmt.Sprintf("accepted %s after election, timeout %s", t.Sub(cur.Relayer.LastElected), cur.Params.AcceptProposerTimeout))
				}
			} else {
				outcome("accept-rejected")
				if !next.refAccepted && o.Var == "right-epoch" && t.Sub(cur.Relayer.LastElected) <= cur.Params.AcceptProposerTimeout {
					viol("timely-acceptance-rejected", fmt.Sprintf("the proposer of epoch %d has not accepted yet, %s after its election (timeout %s): %v", cur.Relayer.Epoch, t.Sub(cur.Relayer.LastElected), cur.Params.AcceptProposerTimeout, err))
				}
			}
		case "vote":
			// a block-hash vote signed by every current member (optionally plus the joining candidate)
			var signers []sim.Member
			var marks []int
			signers = append(signers, in.members[in.byAddr[cur.Relayer.Proposer]])
			for i, v := range cur.Relayer.Voters {
				// a quorum need not be everybody, nor a prefix of the voter list
				if (o.Var == "without-first-voter" && i == 0) || (o.Var == "without-last-voter" && i == len(cur.Relayer.Voters)-1) {
					continue
				}
				signers = append(signers, in.members[in.byAddr[v]])
				marks = append(marks, i)
			}
			// reference quorum: the proposer plus the marked voters are at least two thirds of the group
			expectOK := 3*(len(marks)+1) >= 2*(len(cur.Relayer.Voters)+1)
			if o.Var == "with-joiner" {
				signers = append(signers, in.members[in.nGen])
				marks = append(marks, len(cur.Relayer.Voters))
				expectOK = false
			}
			m := &bitcointypes.MsgNewBlockHashes{Proposer: cur.Relayer.Proposer, StartBlockNumber: cur.Tip + 1, BlockHash: [][]byte{sim.DSHA([]byte{byte(cur.Tip)})}}
			vc := sim.VoteCtx{Method: m.MethodName(), ChainID: chainID, Proposer: cur.Relayer.Proposer, Sequence: cur.Sequence, Epoch: cur.Relayer.Epoch, Payload: m.VoteSigDoc()}
			m.Vote = &relayertypes.Votes{Sequence: cur.Sequence, Epoch: cur.Relayer.Epoch, Voters: sim.Bitmap(marks, 8), Signature: sim.AggregateVote(signers, vc)}
			tctx, write := bctx.CacheContext()
			_, err, _ := in.n.Deliver(tctx, m)
			if err == nil {
				write()
				next.refAccepted = true
				outcome("vote-accepted")
			} else {
				outcome("vote-rejected")
			}
			if (err == nil) != expectOK {
				viol("vote-verdict:"+o.Var, fmt.Sprintf("vote by %d signers marks %v: accepted=%v expected=%v (%v)", len(signers), marks, err == nil, expectOK, err))
			}
		}
	}
	mid := in.takeSnap(bctx)
	var endErr error
	func() {
		defer func() {
			if p := recover(); p != nil {
				endErr = fmt.Errorf("panic: %v", p)
			}
		}()
		endErr = k.EndBlocker(bctx)
	}()
	if endErr != nil {
		viol("relayer-end-blocker-failed", "EndBlocker: "+endErr.Error())
		return nil
	}
	post := in.takeSnap(bctx)
	next.ctx, next.snap = bctx, post

	// election timing
	elapsed := t.Sub(mid.Relayer.LastElected)
	electing := elapsed >= mid.Params.ElectingPeriod || (!next.refAccepted && mid.Params.AcceptProposerTimeout != 0 && elapsed >= mid.Params.AcceptProposerTimeout)
	wantEpoch := mid.Relayer.Epoch
	if electing {
		wantEpoch++
		next.refAccepted = false // a new term: whoever holds the role now has not accepted it
		if len(post.Relayer.Voters) == 0 {
			// a sole member has nobody to be replaced by; the property leaves its flag open
			next.refAccepted = post.Relayer.ProposerAccepted
		}
		outcome("election")
	}
	if post.Relayer.Epoch != wantEpoch {
		viol("election-timing", fmt.Sprintf("epoch %d -> %d, elapsed %s, accepted (reference)=%v: reference expects %d", mid.Relayer.Epoch, post.Relayer.Epoch, elapsed, next.refAccepted, wantEpoch))
	}
	if post.Relayer.ProposerAccepted != next.refAccepted {
		viol("accepted-flag-without-acceptance", fmt.Sprintf("epoch %d proposer %s: accepted flag %v, reference %v (election in this block: %v)", post.Relayer.Epoch, post.Relayer.Proposer, post.Relayer.ProposerAccepted, next.refAccepted, electing))
	}
	if electing && !post.Relayer.LastElected.Equal(t) {
		viol("election-time-not-recorded", fmt.Sprintf("last elected %s after an election at %s", post.Relayer.LastElected, t))
	}
	if !electing && (post.Relayer.Proposer != mid.Relayer.Proposer || fmt.Sprint(post.Relayer.Voters) != fmt.Sprint(mid.Relayer.Voters)) {
		viol("membership-changed-without-election", fmt.Sprintf("%s%v -> %s%v", mid.Relayer.Proposer, mid.Relayer.Voters, post.Relayer.Proposer, post.Relayer.Voters))
	}

	// group invariants in every state
	rel := post.Relayer
	if rel.Proposer == "" {
		viol("no-proposer", "empty proposer")
		return nil
	}
	seen := map[string]bool{rel.Proposer: true}
	for _, v := range rel.Voters {
		if seen[v] {
			viol("duplicate-member", fmt.Sprintf("%s listed twice (proposer %s, voters %v)", v, rel.Proposer, rel.Voters))
		}
		seen[v] = true
	}
	for a := range seen {
		rec, ok := post.Voters[a]
		if !ok {
			viol("member-without-record", fmt.Sprintf("%s (member m%d) has no voter record", a, in.byAddr[a]))
			continue
		}
		if rec.Status != relayertypes.VOTER_STATUS_ACTIVATED && rec.Status != relayertypes.VOTER_STATUS_OFF_BOARDING {
			viol("member-with-bad-status", fmt.Sprintf("%s status %s", a, rec.Status))
		}
		// "awaiting removal at the next election" has to mean that the election will find it: a member
		// flagged as leaving is in the off-boarding queue (a flag without a queue entry is a removal
		// that was half applied: the member never leaves and can never be asked to leave again)
		if rec.Status == relayertypes.VOTER_STATUS_OFF_BOARDING {
			queued := false
			for _, q := range post.Queue.OffBoarding {
				if q == a {
					queued = true
				}
			}
			if !queued {
				viol("member-flagged-as-leaving-but-not-queued-for-removal", fmt.Sprintf("%s (m%d) has status %s, off-boarding queue %v", a, in.byAddr[a], rec.Status, post.Queue.OffBoarding))
			}
		}
		idx, known := in.byAddr[a]
		if !known {
			viol("unknown-member", a)
			continue
		}
		if !bytes.Equal(rec.VoteKey, in.members[idx].BLS.PK) {
			viol("member-vote-key-not-proven", fmt.Sprintf("m%d has vote key %x", idx, rec.VoteKey))
		}
		if idx >= in.nGen || pre.rejoined(idx, in) {
			ep, ok := next.acceptedAt[idx]
			if idx >= in.nGen && (!ok || ep >= rel.Epoch) {
				viol("member-joined-without-proof-or-before-election", fmt.Sprintf("m%d in group at epoch %d, proof accepted at %v(ok=%v)", idx, rel.Epoch, ep, ok))
			}
		}
	}
	return next
}

func (n *rNode) rejoined(idx int, in *c16Inst) bool { return false }

func c16Configs(thorough bool) []c16Cfg {
	cs := []c16Cfg{{Name: "proposer-only", Voters: 0}, {Name: "proposer+1", Voters: 1}, {Name: "proposer+2", Voters: 2}, {Name: "proposer+1-timeout-longer-than-period", Voters: 1, LongTimeout: true}}
	return cs
}

func runC16(r *mc.Run) {
	depth := 5
	if r.Thorough() {
		depth = 6
		r.SetBudget(10 * 60 * 1e9)
	} else {
		r.SetBudget(300 * 1e9)
	}
	r.Bounds["depth_blocks"] = depth
	r.Rule = "DFS over relayer histories for group sizes 1..3: add/remove requests (single, duplicate, proposer, everybody, non-member, re-joining address), NewVoter with genuine proofs and 8 forged/replayed variants, AcceptProposer (right/wrong epoch, after timeout), block-hash votes by all members / with the joining member, time deltas {1,30,100}s (timeout 30s, period 100s); oracle = group invariants in every state (incl. every member flagged as leaving is queued for removal), NewVoter accepted iff genuine for the current context, election timing predicate, EndBlocker never fails"
	r.Assumptions = []string{"the relayer contract registers sha256(BLS key) as key hash", "BLS/ECDSA unforgeability"}
	completed := depth
	for _, c := range c16Configs(r.Thorough()) {
		c := c
		s := &mc.Search[rBlock]{Run: r, Depth: depth, NewInstance: func() (mc.Instance[rBlock], error) { return newC16Inst(r, c) }}
		if err := s.Explore(); err != nil {
			panic(err)
		}
		if s.Completed < completed {
			completed = s.Completed
		}
		r.Sample(map[string]any{"config": c, "example_blocks": []string{rBlock{Dt: 1, Ops: []rOp{{Kind: "add", Who: c.Voters + 1}, {Kind: "newvoter", Who: c.Voters + 1, Var: "genuine"}}}.String(), rBlock{Dt: 100}.String()}})
	}
	r.Bounds["depth_completed"] = completed
}

func replayC16(detail json.RawMessage) (bool, string) {
	var d c16Detail
	if err := json.Unmarshal(detail, &d); err != nil {
		return false, err.Error()
	}
	r := mc.NewRun("replay", "quick")
	r.IgnoreKnown()
	if err := mc.ReplayPath(func() (mc.Instance[rBlock], error) { return newC16Inst(r, d.Cfg) }, d.Path); err != nil {
		return false, err.Error()
	}
	vs := r.ViolationList()
	if len(vs) == 0 {
		return false, "no violation on replay"
	}
	return true, vs[0].Class + ": " + vs[0].Msg
}

func init() { register(&Check{ID: "C16", Run: runC16, Replay: replayC16}) }
