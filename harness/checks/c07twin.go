package checks

import (
	"fmt"
	"runtime"
	"strings"

	"verifharness/enga"
	"verifharness/mc"
)

// c07Twins generalises the "long-running process" replica to every short history: each
// history of the tree is executed twice - block by block on fresh application instances
// (every block on a new App over a copy of the parent's database, as after a restart) and
// once more from the root on one single application instance that lives through the whole
// history. Nothing an instance keeps outside the committed state (memoised lookups, verified-
// signature or verified-proposal caches, pooled buffers, counters) may change any block's
// application hash, transaction results or validator updates.
func c07TwinMenu() []enga.ABlock {
	ev := func(es ...enga.Event) enga.ABlock { return enga.ABlock{Events: es} }
	return []enga.ABlock{
		{},
		ev(enga.Event{Kind: "tx:hashes", N: 1}),
		ev(enga.Event{Kind: "tx:deposits", N: 2}),
		ev(enga.Event{Kind: "tx:deposits", N: 2, Var: "twice-listed"}),
		ev(enga.Event{Kind: "tx:deposits-bad-headers"}),
		ev(enga.Event{Kind: "tx:replay", Var: "rewrite-context"}, enga.Event{Kind: "tx:replay", Var: "other-action"}),
		ev(enga.Event{Kind: "tx:newpubkey", Var: "existing"}),
		ev(enga.Event{Kind: "tx:newpubkey"}),
		ev(enga.Event{Kind: "tx:consolidation"}),
		ev(enga.Event{Kind: "tx:replay-consolidation", Var: "rewrite-context"}),
		ev(enga.Event{Kind: "req:withdraw", N: 2}, enga.Event{Kind: "req:withdraw", N: 1, Var: "bad-address"}),
		ev(enga.Event{Kind: "tx:process", N: 1}),
		ev(enga.Event{Kind: "req:cancel"}),
		ev(enga.Event{Kind: "tx:hashes", N: 1}, enga.Event{Kind: "tx:finalize", Var: "stale-header"}),
		ev(enga.Event{Kind: "tx:finalize"}),
		ev(enga.Event{Kind: "tx:approve"}),
		ev(enga.Event{Kind: "tx:approve", Var: "twice-listed"}),
		ev(enga.Event{Kind: "req:lock", N: 1}, enga.Event{Kind: "req:unknown-validator-lock"}),
		ev(enga.Event{Kind: "req:claim", N: 2}, enga.Event{Kind: "req:unlock", N: 1}),
		{Absent: []int{1}},
		{Evidence: []int{1}},
		{Dt: 7},
		{FailEth: true, Events: []enga.Event{{Kind: "tx:hashes", N: 1}}},
	}
}

func c07ResultDigest(res *enga.Result) string {
	if res.Err != nil {
		return "error at " + res.Stage
	}
	o := c07FinalizeOutcome(res.Finalize)
	return fmt.Sprintf("%s|%v|%v", o.AppHash, o.Txs, o.Updates)
}

// c07TwinDiverges re-executes one history both ways from a fresh root and reports whether
// the two executions differ in any block (used to re-check a reported divergence).
func c07TwinDiverges(path []enga.ABlock) bool {
	root, err := enga.NewWorld(c18Cfg())
	must(err)
	defer root.Close()
	var digests []string
	w := root
	var owned []*enga.World
	defer func() {
		for _, o := range owned {
			o.Close()
		}
	}()
	for _, b := range path {
		c, err := w.Fork()
		must(err)
		owned = append(owned, c)
		digests = append(digests, c07ResultDigest(c.Run(b)))
		w = c
	}
	twin, err := root.Fork()
	must(err)
	defer twin.Close()
	for i, b := range path {
		if c07ResultDigest(twin.Run(b)) != digests[i] {
			return true
		}
	}
	return false
}

func c07Twins(r *mc.Run) {
	depth := 2
	if r.Thorough() {
		depth = 3
	}
	r.Bounds["twin_history_depth_blocks"] = depth
	menu := c07TwinMenu()
	root, err := enga.NewWorld(c18Cfg())
	must(err)
	defer root.Close()
	var walk func(w *enga.World, path []enga.ABlock, digests []string)
	walk = func(w *enga.World, path []enga.ABlock, digests []string) {
		if len(path) == depth {
			twin, err := root.Fork()
			must(err)
			defer twin.Close()
			for i, b := range path {
				res := twin.Run(b)
				r.Transitions.Add(1)
				r.Validated.Add(1)
				if d := c07ResultDigest(res); d != digests[i] {
					if res.Err != nil {
						d += " (" + clip(res.Err.Error(), 400) + ")"
					}
					cls := "replica-diverges:one-instance-through-the-history-vs-instance-per-block"
					r.Violate(mc.Violation{Class: cls, Msg: fmt.Sprintf("block %d of history %v: %s | vs | %s", i+1, aPath(path), clip(d, 300), clip(digests[i], 300)),
						Detail: map[string]any{"history": path, "mode": "twin"}}, func() bool { return c07TwinDiverges(path) })
					return
				}
			}
			r.Outcome("twin-history-agrees")
			return
		}
		for _, b := range menu {
			if r.Expired() {
				r.Cap("time budget reached during the twin-history tree")
				return
			}
			child, err := w.Fork()
			must(err)
			res := child.Run(b)
			r.Transitions.Add(1)
			r.Validated.Add(1)
			if res.Err != nil && !strings.Contains(res.Err.Error(), "empty") {
				r.Violate(mc.Violation{Class: "honest-block-fails:" + res.Stage, Msg: fmt.Sprintf("%v | twin history %v", res.Err, aPath(append(path, b))), Detail: map[string]any{"history": append(path, b)}}, nil)
			}
			if res.Err == nil {
				walk(child, append(append([]enga.ABlock{}, path...), b), append(append([]string{}, digests...), c07ResultDigest(res)))
			}
			child.Close()
		}
	}
	// first level in parallel
	mc.Parallel(len(menu), runtime.NumCPU(), func(i int) {
		child, err := root.Fork()
		must(err)
		defer child.Close()
		res := child.Run(menu[i])
		r.Transitions.Add(1)
		r.Validated.Add(1)
		if res.Err != nil {
			if !strings.Contains(res.Err.Error(), "empty") {
				r.Violate(mc.Violation{Class: "honest-block-fails:" + res.Stage, Msg: fmt.Sprintf("%v | twin history %v", res.Err, aPath([]enga.ABlock{menu[i]})), Detail: map[string]any{"history": []enga.ABlock{menu[i]}}}, nil)
			}
			return
		}
		r.States.Add(1)
		walk(child, []enga.ABlock{menu[i]}, []string{c07ResultDigest(res)})
	})
}
