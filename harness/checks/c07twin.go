package checks

import (
	"bufio"
	"encoding/json"
	"fmt"
	"os"
	"os/exec"
	"runtime"
	"sort"
	"strings"
	"sync"

	"github.com/cosmos/cosmos-sdk/telemetry"
	"verifharness/sim"

	"verifharness/enga"
	"verifharness/mc"
)

// c07Twins generalises the "long-running process" replica to every short history: each
// history of the tree is executed twice - block by block on fresh application instances
// (every block on a new App over a copy of the parent's database, as after a restart) and
// once more from the root on one single application instance that lives through the whole
// history. Nothing an instance keeps outside the committed state (memoised lookups, verified-
// signature or verified-proposal caches, pooled buffers, counters) may change any block's
// application hash, transaction results or validator updates.
func c07TwinMenu() []enga.ABlock {
	ev := func(es ...enga.Event) enga.ABlock { return enga.ABlock{Events: es} }
	return []enga.ABlock{
		{},
		ev(enga.Event{Kind: "tx:hashes", N: 1}),
		ev(enga.Event{Kind: "tx:deposits", N: 2}),
		ev(enga.Event{Kind: "tx:deposits", N: 2, Var: "twice-listed"}),
		ev(enga.Event{Kind: "tx:deposits-bad-headers"}),
		ev(enga.Event{Kind: "tx:replay", Var: "rewrite-context"}, enga.Event{Kind: "tx:replay", Var: "other-action"}),
		ev(enga.Event{Kind: "tx:newpubkey", Var: "existing"}),
		ev(enga.Event{Kind: "tx:newpubkey"}),
		ev(enga.Event{Kind: "tx:consolidation"}),
		ev(enga.Event{Kind: "tx:replay-consolidation", Var: "rewrite-context"}),
		ev(enga.Event{Kind: "req:withdraw", N: 2}, enga.Event{Kind: "req:withdraw", N: 1, Var: "bad-address"}),
		ev(enga.Event{Kind: "tx:process", N: 1}),
		ev(enga.Event{Kind: "req:cancel"}),
		ev(enga.Event{Kind: "tx:hashes", N: 1}, enga.Event{Kind: "tx:finalize", Var: "stale-header"}),
		ev(enga.Event{Kind: "tx:finalize"}),
		ev(enga.Event{Kind: "tx:approve"}),
		ev(enga.Event{Kind: "tx:approve", Var: "twice-listed"}),
		ev(enga.Event{Kind: "req:lock", N: 1}, enga.Event{Kind: "req:unknown-validator-lock"}),
		ev(enga.Event{Kind: "req:claim", N: 2}, enga.Event{Kind: "req:unlock", N: 1}),
		{Absent: []int{1}},
		{Evidence: []int{1}},
		{Dt: 7},
		{FailEth: true, Events: []enga.Event{{Kind: "tx:hashes", N: 1}}},
	}
}

func c07ResultDigest(res *enga.Result) string {
	if res.Err != nil {
		return "error at " + res.Stage
	}
	o := c07FinalizeOutcome(res.Finalize)
	return fmt.Sprintf("%s|%v|%v", o.AppHash, o.Txs, o.Updates)
}

// c07TwinDiverges re-executes one history both ways from a fresh root and reports whether
// the two executions differ in any block (used to re-check a reported divergence).
func c07TwinDiverges(path []enga.ABlock) bool {
	root, err := enga.NewWorld(c18Cfg())
	must(err)
	defer root.Close()
	var digests []string
	w := root
	var owned []*enga.World
	defer func() {
		for _, o := range owned {
			o.Close()
		}
	}()
	for _, b := range path {
		c, err := w.Fork()
		must(err)
		owned = append(owned, c)
		digests = append(digests, c07ResultDigest(c.Run(b)))
		w = c
	}
	twin, err := root.Fork()
	must(err)
	defer twin.Close()
	for i, b := range path {
		if c07ResultDigest(twin.Run(b)) != digests[i] {
			return true
		}
	}
	return false
}

func c07Twins(r *mc.Run) {
	depth := 2
	if r.Thorough() {
		depth = 3
	}
	r.Bounds["twin_history_depth_blocks"] = depth
	menu := c07TwinMenu()
	root, err := enga.NewWorld(c18Cfg())
	must(err)
	defer root.Close()
	var lmu sync.Mutex
	leaves := map[string][]string{}
	var walk func(w *enga.World, path []enga.ABlock, digests []string)
	walk = func(w *enga.World, path []enga.ABlock, digests []string) {
		if len(path) == depth {
			lmu.Lock()
			leaves[fmt.Sprint(aPath(path))] = digests
			lmu.Unlock()
			twin, err := root.Fork()
			must(err)
			defer twin.Close()
			for i, b := range path {
				res := twin.Run(b)
				r.Transitions.Add(1)
				r.Validated.Add(1)
				if d := c07ResultDigest(res); d != digests[i] {
					if res.Err != nil {
						d += " (" + clip(res.Err.Error(), 400) + ")"
					}
					cls := "replica-diverges:one-instance-through-the-history-vs-instance-per-block"
					r.Violate(mc.Violation{Class: cls, Msg: fmt.Sprintf("block %d of history %v: %s | vs | %s", i+1, aPath(path), clip(d, 300), clip(digests[i], 300)),
						Detail: map[string]any{"history": path, "mode": "twin"}}, func() bool { return c07TwinDiverges(path) })
					return
				}
			}
			r.Outcome("twin-history-agrees")
			return
		}
		for _, b := range menu {
			if r.Expired() {
				r.Cap("time budget reached during the twin-history tree")
				return
			}
			child, err := w.Fork()
			must(err)
			res := child.Run(b)
			r.Transitions.Add(1)
			r.Validated.Add(1)
			if res.Err != nil && !strings.Contains(res.Err.Error(), "empty") {
				r.Violate(mc.Violation{Class: "honest-block-fails:" + res.Stage, Msg: fmt.Sprintf("%v | twin history %v", res.Err, aPath(append(path, b))), Detail: map[string]any{"history": append(path, b)}}, nil)
			}
			if res.Err == nil {
				walk(child, append(append([]enga.ABlock{}, path...), b), append(append([]string{}, digests...), c07ResultDigest(res)))
			}
			child.Close()
		}
	}
	// first level in parallel
	mc.Parallel(len(menu), runtime.NumCPU(), func(i int) {
		child, err := root.Fork()
		must(err)
		defer child.Close()
		res := child.Run(menu[i])
		r.Transitions.Add(1)
		r.Validated.Add(1)
		if res.Err != nil {
			if !strings.Contains(res.Err.Error(), "empty") {
				r.Violate(mc.Violation{Class: "honest-block-fails:" + res.Stage, Msg: fmt.Sprintf("%v | twin history %v", res.Err, aPath([]enga.ABlock{menu[i]})), Detail: map[string]any{"history": []enga.ABlock{menu[i]}}}, nil)
			}
			return
		}
		r.States.Add(1)
		walk(child, []enga.ABlock{menu[i]}, []string{c07ResultDigest(res)})
	})
	c07LocalConfigs(r, depth, leaves)
}

// ---- replicas that differ in node-local configuration

// c07LocalVariants are processes set up the way another operator might: nothing in them is part
// of the replicated state machine, so every history must come out exactly as in this process.
var c07LocalVariants = []string{"telemetry-enabled", "other-operator-settings"}

func c07ApplyLocal(variant string) {
	switch variant {
	case "telemetry-enabled":
		// app.toml [telemetry] enabled = true: the server start-up creates the process-wide metrics sink
		if _, err := telemetry.New(telemetry.Config{Enabled: true, ServiceName: "goatd", PrometheusRetentionTime: 60}); err != nil {
			panic(err)
		}
		if !telemetry.IsTelemetryEnabled() {
			panic("telemetry not enabled")
		}
	case "other-operator-settings":
		for k, v := range map[string]any{
			"minimum-gas-prices": "0.25gas", "iavl-cache-size": 0, "iavl-disable-fastnode": true, "inter-block-cache": false,
			"query-gas-limit": 1, "index-events": []string{"tx.height"}, "min-retain-blocks": 1, "trace": true,
			"halt-height": 0, "mempool.max-txs": 7, "pruning": "everything",
		} {
			sim.LocalOpts[k] = v
		}
		os.Setenv("TZ", "Pacific/Kiritimati")
		runtime.GOMAXPROCS(2)
	default:
		panic("unknown node-local variant " + variant)
	}
}

type c07LocalLeaf struct {
	Path    string   `json:"path"`
	Digests []string `json:"digests"`
}

// C07LocalWorker runs the twin menu's histories (an instance per block) in a process configured
// as the variant says and prints one JSON line per history.
func C07LocalWorker(variant string, depth int) {
	c07ApplyLocal(variant)
	menu := c07TwinMenu()
	root, err := enga.NewWorld(c18Cfg())
	must(err)
	defer root.Close()
	out := bufio.NewWriter(os.Stdout)
	var omu sync.Mutex
	var walk func(w *enga.World, path []enga.ABlock, digests []string)
	walk = func(w *enga.World, path []enga.ABlock, digests []string) {
		if len(path) == depth {
			bz, _ := json.Marshal(c07LocalLeaf{fmt.Sprint(aPath(path)), digests})
			omu.Lock()
			out.Write(bz)
			out.WriteByte('\n')
			omu.Unlock()
			return
		}
		for _, b := range menu {
			child, err := w.Fork()
			must(err)
			if res := child.Run(b); res.Err == nil {
				walk(child, append(append([]enga.ABlock{}, path...), b), append(append([]string{}, digests...), c07ResultDigest(res)))
			}
			child.Close()
		}
	}
	mc.Parallel(len(menu), runtime.NumCPU(), func(i int) {
		child, err := root.Fork()
		must(err)
		defer child.Close()
		if res := child.Run(menu[i]); res.Err == nil {
			walk(child, []enga.ABlock{menu[i]}, []string{c07ResultDigest(res)})
		}
	})
	omu.Lock()
	out.WriteString("END\n")
	out.Flush()
	omu.Unlock()
}

func c07RunLocal(variant string, depth int) (map[string][]string, string) {
	self, err := os.Executable()
	must(err)
	cmd := exec.Command(self, "c07local", variant, fmt.Sprint(depth))
	var stderr strings.Builder
	cmd.Stderr = &stderr
	pipe, err := cmd.StdoutPipe()
	must(err)
	must(cmd.Start())
	sc := bufio.NewScanner(pipe)
	sc.Buffer(make([]byte, 1<<20), 1<<26)
	got, ended := map[string][]string{}, false
	for sc.Scan() {
		if sc.Text() == "END" {
			ended = true
			continue
		}
		var l c07LocalLeaf
		if json.Unmarshal(sc.Bytes(), &l) == nil && l.Path != "" {
			got[l.Path] = l.Digests
		}
	}
	_ = cmd.Wait()
	if !ended {
		return nil, "the replica process died: " + clip(stderr.String(), 800)
	}
	return got, ""
}

// c07LocalDiff lists the histories on which the replica's results differ from this process's.
func c07LocalDiff(got, leaves map[string][]string) map[string]string {
	d := map[string]string{}
	for path, mine := range leaves {
		theirs, ok := got[path]
		if !ok {
			d[path] = "the replica did not complete this history"
			continue
		}
		for i := range mine {
			if i >= len(theirs) || theirs[i] != mine[i] {
				t := "nothing"
				if i < len(theirs) {
					t = theirs[i]
				}
				d[path] = fmt.Sprintf("block %d: %s | vs this process | %s", i+1, clip(t, 300), clip(mine[i], 300))
				break
			}
		}
	}
	return d
}

func c07LocalConfigs(r *mc.Run, depth int, leaves map[string][]string) {
	r.Bounds["node_local_configurations"] = c07LocalVariants
	for _, variant := range c07LocalVariants {
		got, died := c07RunLocal(variant, depth)
		if died != "" {
			// once more, alone on the machine, before believing it
			if got, died = c07RunLocal(variant, depth); died != "" {
				r.Violate(mc.Violation{Class: "replica-with-other-node-local-configuration-dies:" + variant, Msg: died, Detail: map[string]any{"mode": "node-local-configuration", "variant": variant}}, nil)
				continue
			}
		}
		n := 0
		for _, d := range got {
			n += len(d)
		}
		r.Transitions.Add(int64(n))
		r.Validated.Add(int64(n))
		diff := c07LocalDiff(got, leaves)
		if len(diff) > 0 {
			// a difference counts only if a second replica process shows the very same one
			again, died := c07RunLocal(variant, depth)
			if died != "" {
				again = map[string][]string{}
			}
			diff2 := c07LocalDiff(again, leaves)
			var paths []string
			for p, d := range diff {
				if diff2[p] == d {
					paths = append(paths, p)
				}
			}
			sort.Strings(paths)
			if len(paths) > 0 {
				r.Violate(mc.Violation{Class: "replica-diverges:node-local-configuration:" + variant,
					Msg:    fmt.Sprintf("%d histories differ, first: %s: %s", len(paths), paths[0], diff[paths[0]]),
					Detail: map[string]any{"history": paths[0], "mode": "node-local-configuration", "variant": variant}}, nil)
				continue
			}
			r.Cap("node-local replica " + variant + ": a difference was not reproduced by a second replica process")
		}
		r.Outcome("node-local-configuration-agrees:" + variant)
	}
}
