package checks

import (
	"bytes"
	"context"
	"crypto/sha256"
	"encoding/json"
	"fmt"
	"os"
	"os/exec"
	"path/filepath"
	"sync"
	"time"

	abci "github.com/cometbft/cometbft/abci/types"
	goatmodtypes "github.com/goatnetwork/goat/x/goat/types"
	"verifharness/enga"
	"verifharness/mc"
	"verifharness/sched"
	"verifharness/sim"
)

// Engine D part of C08: every schedule (preemption-bounded) of the two goroutines of
// PrepareProposalHandler and of verifyEthBlockProposal, at module-store-operation granularity.

type c08SchedSummary struct {
	Class      string         `json:"class"`
	Bound      int            `json:"preemption_bound"`
	Executions int            `json:"executions"`
	MaxPoints  int            `json:"max_scheduling_points"`
	Outcomes   map[string]int `json:"distinct_outcomes"`
	Violations []string       `json:"violations,omitempty"`
	Errors     []string       `json:"internal_errors,omitempty"`
	Sample     []int          `json:"sample_schedule,omitempty"`
}

var c08SchedClasses = []string{"prepare:empty", "prepare:queues+2-mempool-txs", "prepare:valid+foreign-mempool", "verify:empty-payload", "verify:system-txs", "verify:wrong-beacon-root", "verify:engine-invalid"}

func c08SchedBase(class string) *enga.World {
	w, err := enga.NewWorld(c08Cfg())
	must(err)
	switch class {
	case "prepare:queues+2-mempool-txs", "verify:system-txs":
		for _, b := range []enga.ABlock{{Events: []enga.Event{{Kind: "tx:hashes", N: 2}, {Kind: "req:withdraw", N: 2, Var: "bad-address"}, {Kind: "req:claim", N: 1}}}} {
			if rr := w.Run(b); rr.Err != nil {
				panic(rr.Err)
			}
		}
	}
	return w
}

// C08SchedWorker explores one class (instrumented build, one process per class).
func C08SchedWorker(class string, bound int, budgetSec int) {
	base := c08SchedBase(class)
	defer base.Close()
	sum := c08SchedSummary{Class: class, Bound: bound, Outcomes: map[string]int{}}
	budget := time.Now().Add(time.Duration(budgetSec) * time.Second)
	blk := &sim.Block{TimeDelta: time.Second}
	var st sched.Stats
	violate := func(x *sched.Execution, msg string) {
		if len(sum.Violations) < 5 {
			sum.Violations = append(sum.Violations, fmt.Sprintf("%s | schedule %v", msg, x.Choices))
		}
	}
	if len(class) > 8 && class[:8] == "prepare:" {
		var pp *abci.ResponsePrepareProposal
		var perr error
		body := func(prefix []int) *sched.Execution {
			a, err := base.Fork()
			must(err)
			defer a.Close()
			pool := "empty"
			switch class {
			case "prepare:queues+2-mempool-txs":
				pool = "2-valid"
			case "prepare:valid+foreign-mempool":
				pool = "valid+stale+foreign"
			}
			var txs [][]byte
			if pool == "2-valid" {
				txs = c08FillMempool(a, "1-valid")
				more := c08FillMempoolFrom(a, 1)
				txs = append(txs, more...)
			} else {
				txs = c08FillMempool(a, pool)
			}
			b := *blk
			b.MempoolTxs = txs
			return sched.Run(prefix, func() { pp, perr = a.N.Prepare(&b) })
		}
		check := func(x *sched.Execution) bool {
			if perr != nil {
				violate(x, "PrepareProposal failed: "+perr.Error())
				return true
			}
			h := sha256.New()
			for _, t := range pp.Txs {
				h.Write(t)
			}
			sum.Outcomes[fmt.Sprintf("%d-txs:%x", len(pp.Txs), h.Sum(nil)[:6])]++
			if len(pp.Txs) > 16 {
				violate(x, "more than 16 transactions")
			}
			rep, err := base.Fork()
			must(err)
			defer rep.Close()
			pr, err := rep.N.Process(blk, pp.Txs)
			if err != nil || pr.Status != abci.ResponseProcessProposal_ACCEPT {
				violate(x, fmt.Sprintf("proposal built under this schedule is rejected: %v %v", pr, err))
				return true
			}
			fr, err := rep.N.Finalize(blk, pp.Txs)
			if err != nil || fr.TxResults[0].Code != 0 {
				violate(x, "execution-block message of the proposal fails")
			}
			if sum.Sample == nil && len(x.Choices) > 4 {
				sum.Sample = x.Choices
			}
			return true
		}
		st = sched.Explore(bound, budget, body, check)
	} else {
		// verify classes: one proposal, checked under every schedule
		var txs [][]byte
		want := abci.ResponseProcessProposal_ACCEPT
		switch class {
		case "verify:wrong-beacon-root":
			tx, _, err := base.N.BuildEthBlockTx(sim.EthBlockOpts{Rehash: true, MutatePayload: func(p *goatmodtypes.ExecutionPayload) { p.BeaconRoot = bytes.Repeat([]byte{5}, 32) }})
			must(err)
			txs = [][]byte{tx}
			want = abci.ResponseProcessProposal_REJECT
		default:
			tx, _, err := base.N.BuildEthBlockTx(sim.EthBlockOpts{})
			must(err)
			txs = [][]byte{tx}
		}
		if class == "verify:engine-invalid" {
			want = abci.ResponseProcessProposal_REJECT
		}
		var pr *abci.ResponseProcessProposal
		var perr error
		body := func(prefix []int) *sched.Execution {
			if class == "verify:engine-invalid" {
				base.N.EL.ResetCalls()
				base.N.EL.SetFaults(map[int]sim.FaultKind{0: sim.FaultInvalid})
			}
			return sched.Run(prefix, func() { pr, perr = base.N.Process(blk, txs) })
		}
		check := func(x *sched.Execution) bool {
			status := abci.ResponseProcessProposal_REJECT
			if perr == nil && pr != nil {
				status = pr.Status
			}
			sum.Outcomes[status.String()]++
			if status != want {
				violate(x, fmt.Sprintf("verdict %s under this schedule, %s expected", status, want))
			}
			if sum.Sample == nil && len(x.Choices) > 4 {
				sum.Sample = x.Choices
			}
			return true
		}
		st = sched.Explore(bound, budget, body, check)
	}
	sum.Executions, sum.MaxPoints, sum.Errors = st.Executions, st.MaxPoints, st.Errors
	bz, _ := json.Marshal(sum)
	fmt.Println(string(bz))
}

// c08FillMempoolFrom adds n more valid transactions after the ones already inserted.
func c08FillMempoolFrom(w *enga.World, already uint64) [][]byte {
	key := relayerKey(w)
	rel, _ := w.Relayer()
	num, seq, _ := w.N.Account(w.N.Ctx(), key.Addr())
	m, _ := w.BuildMsg(enga.Event{Kind: "tx:deposits", N: 1})
	if m == nil {
		m, _ = w.BuildMsg(enga.Event{Kind: "tx:accept"})
	}
	_ = rel
	tx, err := sim.SignTx(w.N.TxCfg, w.N.Cfg.ChainID, key, num, seq+already, 0, "", m)
	must(err)
	must(w.N.InsertMempool(tx))
	return [][]byte{tx}
}

func c08Schedules(r *mc.Run) {
	self, err := os.Executable()
	must(err)
	bin := filepath.Join(filepath.Dir(self), "verifmc-ovl")
	if _, err := os.Stat(bin); err != nil {
		r.Cap("instrumented binary bin/verifmc-ovl missing: schedules not explored")
		return
	}
	bound, budget := 2, 120
	if r.Thorough() {
		bound, budget = 3, 600
	}
	var mu sync.Mutex
	sums := map[string]c08SchedSummary{}
	mc.Parallel(len(c08SchedClasses), len(c08SchedClasses), func(i int) {
		class := c08SchedClasses[i]
		b := bound
		if class[:7] == "verify:" {
			b = bound + 1 // executions are cheap
		}
		// the worker has its own budget; the hard limit only guards against a worker that hangs
		wctx, cancel := context.WithTimeout(context.Background(), time.Duration(budget+90)*time.Second)
		out, err := exec.CommandContext(wctx, bin, "c08sched", class, fmt.Sprint(b), fmt.Sprint(budget)).Output()
		cancel()
		if err != nil {
			r.Cap("schedule worker for " + class + " failed: " + err.Error())
			return
		}
		var s c08SchedSummary
		lines := bytes.Split(bytes.TrimSpace(out), []byte("\n"))
		if json.Unmarshal(lines[len(lines)-1], &s) != nil {
			r.Cap("schedule worker output unreadable for " + class)
			return
		}
		mu.Lock()
		sums[class] = s
		mu.Unlock()
		r.Transitions.Add(int64(s.Executions))
		r.Validated.Add(int64(s.Executions))
		for _, e := range s.Errors {
			r.Cap("schedule exploration of " + class + ": " + e)
		}
		for _, v := range s.Violations {
			r.Violate(mc.Violation{Class: "schedule-dependent:" + class, Msg: v, Detail: s}, nil)
		}
		if len(s.Outcomes) > 1 {
			r.Violate(mc.Violation{Class: "schedule-dependent-outcome:" + class, Msg: fmt.Sprintf("%d distinct outcomes over %d schedules: %v", len(s.Outcomes), s.Executions, s.Outcomes), Detail: s}, nil)
		}
		r.Outcome("schedules-explored:" + class)
	})
	r.Extra["schedule_exploration"] = sums
}
