package checks

import (
	"fmt"

	"cosmossdk.io/collections"
	"sort"

	"github.com/btcsuite/btcd/chaincfg/chainhash"
	abci "github.com/cometbft/cometbft/abci/types"
	sdk "github.com/cosmos/cosmos-sdk/types"
	authtypes "github.com/cosmos/cosmos-sdk/x/auth/types"
	"github.com/cosmos/gogoproto/proto"
	"github.com/ethereum/go-ethereum/common"
	bitcointypes "github.com/goatnetwork/goat/x/bitcoin/types"
	goattypes "github.com/goatnetwork/goat/x/goat/types"
	lockingtypes "github.com/goatnetwork/goat/x/locking/types"
	relayertypes "github.com/goatnetwork/goat/x/relayer/types"
	"verifharness/enga"
	"verifharness/sim"
)

// c18Query is one gRPC query: the registered route and the request message.
type c18Query struct {
	Path string
	Req  proto.Message
	Desc string
}

// c18QueryMenu builds, from the exporting chain's state, the finite menu of queries that is
// put to both applications: every method of every query service of the four goat modules (and
// the account query of auth for every relayer member), each with every argument value that
// denotes something in the state plus one that does not.
func c18QueryMenu(w *enga.World, sctx sdk.Context) []c18Query {
	var qs []c18Query
	add := func(path string, req proto.Message, desc string) { qs = append(qs, c18Query{path, req, desc}) }
	add("/goat.bitcoin.v1.Query/Params", &bitcointypes.QueryParamsRequest{}, "")
	add("/goat.bitcoin.v1.Query/Pubkey", &bitcointypes.QueryPubkeyRequest{}, "")
	add("/goat.bitcoin.v1.Query/BlockTip", &bitcointypes.QueryBlockTipRequest{}, "")
	add("/goat.goat.v1.Query/EthBlockTip", &goattypes.QueryEthBlockTipRequest{}, "")
	add("/goat.locking.v1.Query/Params", &lockingtypes.QueryParamsRequest{}, "")
	add("/goat.relayer.v1.Query/Params", &relayertypes.QueryParamsRequest{}, "")
	add("/goat.relayer.v1.Query/Relayer", &relayertypes.QueryRelayerRequest{}, "")
	add("/goat.relayer.v1.Query/Pubkeys", &relayertypes.QueryPubkeysRequest{}, "")
	evm := []string{common.BytesToAddress(w.ValKeys[0].Addr()).Hex(), "0x00000000000000000000000000000000000000ff", "nonsense"}
	for _, e := range evm {
		for v := uint32(0); v <= 2; v++ {
			add("/goat.bitcoin.v1.Query/DepositAddress", &bitcointypes.QueryDepositAddress{Version: v, EvmAddress: e}, fmt.Sprintf("v%d %s", v, e))
		}
	}
	for id := uint64(0); id <= w.Bot.NextWid+1; id++ {
		add("/goat.bitcoin.v1.Query/Withdrawal", &bitcointypes.QueryWithdrawalRequest{Id: id}, fmt.Sprint(id))
	}
	// every credited outpoint of the exporting chain, its neighbour output and an unknown transaction
	type op struct {
		tx  string
		out uint32
	}
	var ops []op
	must(w.N.App.BitcoinKeeper.Deposited.Walk(sctx, nil, func(k collections.Pair[[]byte, uint32], _ uint64) (bool, error) {
		h, err := chainhash.NewHash(k.K1())
		if err == nil {
			ops = append(ops, op{h.String(), k.K2()}, op{h.String(), k.K2() + 1})
		}
		return false, nil
	}))
	ops = append(ops, op{chainhash.Hash{7}.String(), 0})
	sort.Slice(ops, func(i, j int) bool { return ops[i].tx+fmt.Sprint(ops[i].out) < ops[j].tx+fmt.Sprint(ops[j].out) })
	for _, o := range ops {
		add("/goat.bitcoin.v1.Query/HasDeposited", &bitcointypes.QueryHasDeposited{Txid: o.tx, Txout: o.out}, fmt.Sprintf("%s:%d", o.tx[:8], o.out))
	}
	for i, k := range w.ValKeys {
		add("/goat.locking.v1.Query/Validator", &lockingtypes.QueryValidatorRequest{Address: common.BytesToAddress(k.Addr()).Hex()}, fmt.Sprintf("val%d", i))
	}
	add("/goat.locking.v1.Query/Validator", &lockingtypes.QueryValidatorRequest{Address: "0x00000000000000000000000000000000000000ff"}, "unknown")
	for i, m := range w.Members {
		add("/goat.relayer.v1.Query/Voter", &relayertypes.QueryVoterRequest{Address: m.Key.AddrStr()}, fmt.Sprintf("member%d", i))
		add("/cosmos.auth.v1beta1.Query/Account", &authtypes.QueryAccountRequest{Address: m.Key.AddrStr()}, fmt.Sprintf("member%d", i))
		add("/cosmos.auth.v1beta1.Query/AccountInfo", &authtypes.QueryAccountInfoRequest{Address: m.Key.AddrStr()}, fmt.Sprintf("member%d", i))
	}
	add("/goat.relayer.v1.Query/Voter", &relayertypes.QueryVoterRequest{Address: sim.NewKey("nobody").AddrStr()}, "unknown")
	add("/cosmos.auth.v1beta1.Query/Accounts", &authtypes.QueryAccountsRequest{}, "")
	add("/cosmos.auth.v1beta1.Query/ModuleAccounts", &authtypes.QueryModuleAccountsRequest{}, "")
	add("/cosmos.auth.v1beta1.Query/Params", &authtypes.QueryParamsRequest{}, "")
	return qs
}

// c18Ask puts one query to an application through its registered gRPC query route and renders
// the answer (or the error) canonically.
func c18Ask(n *sim.Node, ctx sdk.Context, q c18Query) string {
	h := n.App.GRPCQueryRouter().Route(q.Path)
	if h == nil {
		return "no-route"
	}
	bz, err := proto.Marshal(q.Req)
	must(err)
	var out string
	func() {
		defer func() {
			if p := recover(); p != nil {
				out = fmt.Sprintf("panic: %v", p)
			}
		}()
		cctx, _ := ctx.CacheContext()
		resp, err := h(cctx, &abci.RequestQuery{Data: bz, Path: q.Path})
		if err != nil {
			out = "error: " + err.Error()
			return
		}
		out = fmt.Sprintf("%x", resp.Value)
	}()
	return out
}

// c18CompareQueries returns one line per query whose answer differs between the exporting
// chain and the chain initialised from the export, and the number of queries put.
func c18CompareQueries(w *enga.World, sctx sdk.Context, imp *sim.Node, ictx sdk.Context) (bad []string, asked int, answered int) {
	for _, q := range c18QueryMenu(w, sctx) {
		a, b := c18Ask(w.N, sctx, q), c18Ask(imp, ictx, q)
		asked++
		if a == "no-route" {
			bad = append(bad, "query-route-missing:"+q.Path)
			continue
		}
		if len(a) < 6 || a[:6] != "error:" {
			answered++
		}
		if a != b {
			bad = append(bad, fmt.Sprintf("query-answer-differs-after-import:%s(%s): %s | vs | %s", q.Path, q.Desc, clip(a, 160), clip(b, 160)))
		}
	}
	return
}

func clip(s string, n int) string {
	if len(s) > n {
		return s[:n] + "..."
	}
	return s
}
