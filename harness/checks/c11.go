package checks

import (
	"encoding/json"
	"fmt"
	"math/big"

	"cosmossdk.io/math"
	"github.com/ethereum/go-ethereum/common"
	"github.com/ethereum/go-ethereum/core/types/goattypes"
	lockingtypes "github.com/goatnetwork/goat/x/locking/types"
	"verifharness/engb"
	"verifharness/mc"
)

// C11 – locked funds are conserved: locked = held + slashed + released.

func c11Configs(thorough bool) []lockCfg {
	cs := []lockCfg{
		{Name: "two-tied-max2-tk2w3", Powers: []uint64{2, 2}, MaxValidators: 2, Tk2Weight: 3, Tk2Threshold: 0, Candidates: 3},
		{Name: "one-max3-tk2thr", Powers: []uint64{3}, MaxValidators: 3, Tk2Weight: 0, Tk2Threshold: 1, Candidates: 2},
		// a negative double-sign fraction: explored only while the module's own validation admits it
		{Name: "two-max2-negative-double-sign-fraction", Powers: []uint64{3, 2}, MaxValidators: 2, Tk2Weight: 1, Tk2Threshold: 0, Candidates: 3, DoubleSignFraction: "-0.05"},
		{Name: "two-max2-equal-delays", Powers: []uint64{3, 2}, MaxValidators: 2, Tk2Weight: 1, Tk2Threshold: 0, Candidates: 3, EqualDurations: true},
	}
	if thorough {
		cs = append(cs, lockCfg{Name: "three-max2", Powers: []uint64{2, 2, 3}, MaxValidators: 2, Tk2Weight: 1, Tk2Threshold: 1, Candidates: 4})
	}
	return cs
}

func c11Menu(c lockCfg, thorough bool) func(w *engb.World, st *engb.LState, depth int) []engb.LBlock {
	cand := len(c.Powers)
	ops := []engb.LOp{
		{Kind: "create", Val: cand},
		{Kind: "lock", Val: cand, Token: 0, Amt: amt(2)},
		{Kind: "lock", Val: 0, Token: 0, Amt: "1"},
		{Kind: "lock", Val: 0, Token: 1, Amt: "150"},
		{Kind: "lock", Val: 0, Token: 1, Amt: amt(1)},
		{Kind: "unlock", Val: 0, Token: 0, Amt: "1"},
		{Kind: "unlock", Val: 0, Token: 0, Amt: amt(1)},
		{Kind: "unlock", Val: 0, Token: 0, Amt: amt(3)},
		{Kind: "unlock", Val: 0, Token: 1, Amt: "1000"},
		{Kind: "unlock", Val: cand, Token: 0, Amt: amt(1)},
		{Kind: "weight", Token: 1, U64: 0},
		{Kind: "threshold", Token: 0, Amt: amt(3)},
	}
	if thorough {
		ops = append(ops,
			engb.LOp{Kind: "lock", Val: cand, Token: 1, Amt: "7"},
			engb.LOp{Kind: "unlock", Val: cand, Token: 1, Amt: "3"},
			engb.LOp{Kind: "threshold", Token: 1, Amt: "0"},
			engb.LOp{Kind: "weight", Token: 0, U64: 2},
		)
	}
	base := singleOpBlocks(ops, []int64{1, 11, 61})
	base = append(base,
		engb.LBlock{Dt: 1, Absent: []int{0}},
		engb.LBlock{Dt: 1, Evidence: []engb.EvSpec{{Val: 0, AgeBlocks: 1, AgeSecs: 1}}},
		engb.LBlock{Dt: 1, Evidence: []engb.EvSpec{{Val: cand, AgeBlocks: 1, AgeSecs: 1}}},
		// two events per block
		engb.LBlock{Dt: 1, Ops: []engb.LOp{{Kind: "lock", Val: 0, Token: 1, Amt: "150"}, {Kind: "unlock", Val: 0, Token: 1, Amt: "1000"}}},
		engb.LBlock{Dt: 1, Ops: []engb.LOp{{Kind: "unlock", Val: 0, Token: 0, Amt: amt(1)}, {Kind: "unlock", Val: 0, Token: 0, Amt: amt(3)}}},
		engb.LBlock{Dt: 1, Ops: []engb.LOp{{Kind: "unlock", Val: 0, Token: 0, Amt: "1"}, {Kind: "unlock", Val: 1, Token: 0, Amt: amt(1)}}}, // an ordinary and (where v1 then drops below the threshold) an exit unlock in one list
		engb.LBlock{Dt: 1, Absent: []int{0}, Ops: []engb.LOp{{Kind: "unlock", Val: 0, Token: 0, Amt: "1"}}},
		engb.LBlock{Dt: 1, Absent: []int{0}, Ops: []engb.LOp{{Kind: "lock", Val: 0, Token: 1, Amt: "150"}}},
		engb.LBlock{Dt: 1, Ops: []engb.LOp{{Kind: "lock", Val: 0, Token: 0, Amt: "1"}, {Kind: "lock", Val: 9, Token: 0, Amt: "5"}}}, // second names an unknown validator: whole tx must roll back
	)
	// a burst that fills a whole delivery batch, to be followed by a later unlock maturing in the same sweep
	var burst []engb.LOp
	for i := 0; i < 17; i++ {
		burst = append(burst, engb.LOp{Kind: "unlock", Val: 0, Token: 0, Amt: "1"})
	}
	// 17 = one more than a delivery batch: one matured unlock stays queued for a block, during
	// which other kinds of requests (a reward claim shares the delivery queue) are processed
	base = append(base, engb.LBlock{Dt: 1, Ops: burst}, engb.LBlock{Dt: 1, Ops: []engb.LOp{{Kind: "claim", Val: 0}}})
	if len(c.Powers) > 1 {
		base = append(base, engb.LBlock{Dt: 1, Absent: []int{0, 1}})
	}
	// the chain restarted from an exported state in mid-history: for the reference model a no-op
	base = append(base, engb.LBlock{Dt: 1, Reimport: true})
	return func(w *engb.World, st *engb.LState, depth int) []engb.LBlock { return base }
}

func tokenTotal(s *engb.Snap, denom string, tokenAddr []byte) *big.Int {
	t := new(big.Int)
	for _, v := range s.Vals {
		t.Add(t, v.Locking.AmountOf(denom).BigInt())
	}
	if sl, ok := s.Slashed[denom]; ok {
		t.Add(t, sl.BigInt())
	}
	for _, e := range s.Unlocks {
		for _, u := range e.U {
			if common.BytesToAddress(u.Token) == common.BytesToAddress(tokenAddr) {
				t.Add(t, u.Amount.BigInt())
			}
		}
	}
	for _, u := range s.Queue.Unlocks {
		if common.BytesToAddress(u.Token) == common.BytesToAddress(tokenAddr) {
			t.Add(t, u.Amount.BigInt())
		}
	}
	return t
}

func findUnlock(s *engb.Snap, id uint64) *lockingtypes.Unlock {
	for _, e := range s.Unlocks {
		for _, u := range e.U {
			if u.Id == id {
				return u
			}
		}
	}
	for _, u := range s.Queue.Unlocks {
		if u.Id == id {
			return u
		}
	}
	return nil
}

func c11Monitor(r *mc.Run, c lockCfg) engb.Monitor {
	tokens := []common.Address{{}, tk2Addr}
	return func(path []engb.LBlock, pre, next *engb.LState, res *engb.StepResult) {
		viol := func(class, msg string) {
			p := append([]engb.LBlock{}, path...)
			r.Violate(mc.Violation{Class: class, Msg: msg + " | history: " + fmt.Sprint(pathStrings(p)), Detail: lockDetail{Cfg: c, Path: p}}, nil)
		}
		if next == nil {
			if res.Truncated {
				r.Outcome("truncated-empty-set")
			} else {
				r.Outcome("block-failed(other property)")
			}
			return
		}
		post := res.Post
		if res.TxErr != nil {
			r.Outcome("tx-rolled-back")
		} else {
			r.Outcome("tx-ok")
		}
		for _, tk := range tokens {
			denom := lockingtypes.TokenDenom(tk)
			locked := new(big.Int)
			if res.TxErr == nil {
				for _, l := range res.Reqs.Locks {
					if l.Token == tk {
						locked.Add(locked, l.Amount)
					}
				}
			}
			delivered := new(big.Int)
			for _, tx := range res.Delivered {
				if cu, ok := tx.Inner.(*goattypes.CompleteUnlockTx); ok && cu.Token == tk {
					delivered.Add(delivered, cu.Amount)
				}
			}
			before := tokenTotal(res.Pre, denom, tk.Bytes())
			after := tokenTotal(post, denom, tk.Bytes())
			lhs := new(big.Int).Add(after, delivered)
			lhs.Sub(lhs, before)
			if lhs.Cmp(locked) != 0 {
				viol("conservation-broken:"+denom, fmt.Sprintf("token %s: held+slashed+queued went from %s to %s (+%s delivered) but %s was locked in this block", denom, before, after, delivered, locked))
			}
		}
		// nothing negative
		for a, v := range post.Vals {
			for _, coin := range v.Locking {
				if coin.Amount.IsNegative() {
					viol("negative-holding", fmt.Sprintf("validator %x holds %s", a, coin))
				}
			}
		}
		for d, s := range post.Slashed {
			if s.IsNegative() {
				viol("negative-slashed", fmt.Sprintf("slashed[%s]=%s", d, s))
			}
		}
		// every unlock of this block releases <= requested and <= holding before it
		if res.TxErr == nil {
			hold := map[string]math.Int{}
			get := func(val common.Address, tk common.Address) math.Int {
				k := string(val.Bytes()) + "|" + lockingtypes.TokenDenom(tk)
				if h, ok := hold[k]; ok {
					return h
				}
				h := math.ZeroInt()
				// slashing in BeginBlocker happens before the requests: holding before = after BeginBlocker
				if v, ok := res.AfterBegin.Vals[string(val.Bytes())]; ok {
					h = v.Locking.AmountOf(lockingtypes.TokenDenom(tk))
				}
				hold[k] = h
				return h
			}
			for _, l := range res.Reqs.Locks {
				k := string(l.Validator.Bytes()) + "|" + lockingtypes.TokenDenom(l.Token)
				hold[k] = get(l.Validator, l.Token).Add(math.NewIntFromBigInt(l.Amount))
			}
			for _, u := range res.Reqs.Unlocks {
				e := findUnlock(post, u.Id)
				if e == nil {
					viol("unlock-entry-missing", fmt.Sprintf("unlock id %d not queued", u.Id))
					continue
				}
				if e.Amount.IsNegative() {
					viol("negative-unlock", fmt.Sprintf("unlock id %d amount %s", u.Id, e.Amount))
				}
				if e.Amount.BigInt().Cmp(u.Amount) > 0 {
					viol("unlock-exceeds-request", fmt.Sprintf("unlock id %d releases %s > requested %s", u.Id, e.Amount, u.Amount))
				}
				k := string(u.Validator.Bytes()) + "|" + lockingtypes.TokenDenom(u.Token)
				h := get(u.Validator, u.Token)
				if e.Amount.GT(h) {
					viol("unlock-exceeds-holding", fmt.Sprintf("unlock id %d releases %s > holding %s", u.Id, e.Amount, h))
				}
				nh := h.Sub(e.Amount)
				if nh.IsNegative() {
					nh = math.ZeroInt()
				}
				hold[k] = nh
			}
		}
	}
}

func runC11(r *mc.Run) {
	depth := 5
	if r.Thorough() {
		depth = 7
		r.SetBudget(10 * 60 * 1e9)
	} else {
		r.SetBudget(300 * 1e9)
	}
	r.Bounds["depth_blocks"] = depth
	r.Rule = "DFS over locking histories (create/lock/unlock with dust and unit amounts, weight/threshold changes, absent votes, evidence, time deltas, a rolled-back batch); oracle = per-token step identity delta(held+slashed+queued)+delivered = locked, unlock <= request and <= holding, nothing negative"
	r.Assumptions = []string{"execution-layer lock amounts are non-negative", "histories are truncated where the validator set would become empty"}
	cfgs := c11Configs(r.Thorough())
	completed := depth
	for _, c := range cfgs {
		if err := c.admitted(); err != nil {
			r.Outcome("configuration-refused-by-the-chain's-own-validation:" + c.Name)
			continue
		}
		d := depth
		if c.DoubleSignFraction != "" {
			d = 2
		}
		if c.EqualDurations {
			d = depth - 2 // the corner this configuration adds shows in the block of the requests; the budget goes to the other two
		}
		e := &engb.Explorer{Run: r, NewRoot: c.newRoot, Menu: c11Menu(c, r.Thorough()), Monitor: c11Monitor(r, c), Depth: d, ConformanceDepth: 2, WantMid: true}
		if err := e.Explore(); err != nil {
			panic(err)
		}
		runConformance(r, c, e)
		if e.Completed < completed {
			completed = e.Completed
		}
		m := c11Menu(c, r.Thorough())(nil, nil, 0)
		r.Sample(map[string]any{"config": c, "menu_size": len(m), "example_blocks": []string{m[3].String(), m[len(m)-1].String()}})
	}
	r.Bounds["depth_completed"] = completed
}

func init() {
	register(&Check{ID: "C11", Run: runC11, Replay: func(d json.RawMessage) (bool, string) { return lockReplay(d, c11Monitor, true) }})
}
